"""C10 -- relational groups, see checks/relational.py and DESIGN.md §5 C10"""
from checks import relational

TECHNIQUE = "two symbolic executions of the real Model.build/process (and of set_initialization / ParameterScenario.get_parset / deepcopy / pickle) on z3-real proxies compared output by output: z3 term identity where both runs build the same term, SMT otherwise; counterexamples replayed on the unpatched code"
EXPLANATION = "Run A from an arbitrary symbolic state (M1, M4 junction, M7 timed with flush, M8 duration group with junction, M12 with programs active before/after the restart year); the real ParameterSet.set_initialization / Initialization.from_result / apply store the state at index j; run B starts at t_j with the settings' start moved; chain: restart of a restart. Obligation: B's initial state equals A's state at j (each row of timed compartments) and every stock, flow, parameter and sum-characteristic of B at index i equals A's at j+i (lockstep). The calibration-spreadsheet route (to_excel/from_excel) is file I/O through pandas/openpyxl and is not decided by this technique; derivative parameters are excluded by the property. Bounds: T <= 7 time points, dt = 0.25, one population (two with a transfer in thorough), values in unit ranges; floats as reals."
GROUP_TIMEOUT = {"quick": 1800, "thorough": 3600}


def groups(tier):
    return relational.groups("C10", tier)


def replay(rec):
    return relational.replay("C10", rec)
