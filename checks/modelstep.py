"""
Model-level groups for C01-C04: the real Model.__init__/build and Model.process (start-up sequence and T-1 integration
steps) on catalogue structures, from an arbitrary symbolic state, with harness hooks after update_pars / flush_junctions /
update_links / update_comps that (i) state the per-step obligations on the real terms and (ii) *cut*: replace every value
just checked by a fresh variable carrying only what was proved (DESIGN.md §2 "cuts", §3).  What this adds to the kernel
groups is the wiring: link creation in Population.build/Model.build (transfers included), execution order, the call sequence
in process(), and which cached outflow each update subtracts.
"""

import copy
import numpy as np
from vsym import modelrun as mr, gen, shim
from vsym.env import run_body, replay_body
from checks.kern import frac_spec

_PROJECTS = {}


def project(name, T, dt=0.25, pops=1, transfers=0, durs=None, transfer_units="probability"):
    key = (name, T, dt, pops, transfers, durs, transfer_units)
    if key not in _PROJECTS:
        import atomica as at

        if name in gen.CATALOGUE:
            P = gen.make_project(gen.CATALOGUE[name](), pops=pops, transfers=transfers, start=2000.0, end=2000.0 + dt * (T - 1), dt=dt)
            if transfers:
                for k, tr in P.parsets[0].transfers.items():
                    for src, par in tr.items():
                        for dst, ts in par.ts.items():
                            if transfer_units == "duration":
                                ts.assumption = 8.0
                            ts.units = transfer_units
            if durs:
                # duration of the timed group differs between the populations (connected by the transfer)
                for pop, d in zip(P.parsets[0].pop_names, durs):
                    ts = P.parsets[0].pars["dur"].ts[pop]
                    ts.assumption = d
                    ts.t, ts.vals = [], []
        else:
            P = at.demo(name, do_run=False)
            s0 = float(P.settings.sim_start)
            P.settings.update_time_vector(start=s0, end=s0 + dt * (T - 1), dt=dt)
        _PROJECTS[key] = P
    return _PROJECTS[key]


class Hooks:
    """Wrap Model methods with pre/post callbacks for the duration of a harness run"""

    def __init__(self, am, pre=None, post=None):
        self.am = am
        self.pre = pre or {}
        self.post = post or {}
        self.saved = []

    def __enter__(self):
        for name in set(self.pre) | set(self.post):
            f = self.am.Model.__dict__[name]
            self.saved.append((name, f))
            pre, post = self.pre.get(name), self.post.get(name)

            def w(model, *a, _f=f, _pre=pre, _post=post, **k):
                if _pre:
                    _pre(model)
                r = _f(model, *a, **k)
                if _post:
                    _post(model)
                return r

            setattr(self.am.Model, name, w)
        return self

    def __exit__(self, *exc):
        for name, f in reversed(self.saved):
            setattr(self.am.Model, name, f)
        return False


def _rows(comp):
    return comp._vals.shape[0]


def step_body(name, T, want, dt=0.25, pops=1, transfers=0, junction_init=False, durs=None):
    def body(env):
        am, ap, au, apar, afp = mr.modules()
        P = project(name, T, dt, pops, transfers, durs)
        F = P.framework
        ps = copy.deepcopy(P.parsets[0])
        nn = lambda v: env.ge(v, 0.0, 0)
        state = {}

        def is_plain(c):
            return isinstance(c, am.Compartment) and not isinstance(c, (am.SourceCompartment, am.SinkCompartment, am.JunctionCompartment, am.TimedCompartment))

        # ------------------------------------------------------------------ hooks
        def post_pars(model):
            ti = model._t_index
            state["npars"] = state.get("npars", 0) + 1

            def junction_domain(label):
                for pop in model.pops:
                    for c in pop.comps:
                        if isinstance(c, am.JunctionCompartment) and not isinstance(c, am.ResidualJunctionCompartment):
                            s = 0.0
                            for l in c.outlinks:
                                s = s + env.smax(l.parameter.vals[ti], 0.0)
                            env.assume(env.b(s > 0), "domain restriction: plain junction %s has a positive proportion sum at index %d%s" % (c.name, ti, label))

            junction_domain("")
            if not env.cutting:
                return
            # parameter values driving flows are arbitrary for C01-C03: cut them (no guarantee needed)
            for pop in model.pops:
                for par in pop.pars:
                    if par.vals is None or not (par.links or par.units == "proportion"):
                        continue
                    v = par.vals[ti]
                    if shim.is_sym(v) or not env.symbolic:
                        guarantees = []
                        f = gen.FLUSH_SPEC.get(name, {}).get(par.name)
                        if f is not None and ti == 0 and "pre_flush" not in state:
                            # function-valued junction proportion before the initial flush: the cut keeps its (proved) value on the initial state
                            stocks0 = {c.name: mr.comp_val(am, c, 0) for c in pop.comps}
                            guarantees = [lambda x, _s=f(stocks0): env.eq(x, _s)]
                        par.vals[ti] = env.cut(v, "par|%s|%s|%d|call%d" % (par.name, pop.name, ti, state["npars"]), guarantees)
            junction_domain(" (cut values)")

        def pre_flush(model):
            tot = 0.0
            for pop in model.pops:
                for c in pop.comps:
                    if not isinstance(c, am.SourceCompartment):
                        tot = tot + mr.comp_val(am, c, 0)
            state["pre_flush_total"] = tot
            if state.get("supplied_junction_contents") and "flush_seen" not in state:
                # people placed in a junction by the (explicit) initial conditions are there when the initial flush starts
                state["flush_seen"] = True
                for (cn, pn), v in state["supplied_junction_contents"].items():
                    cobj = [c for pop in model.pops if pop.name == pn for c in pop.comps if c.name == cn][0]
                    env.claim("C04_supplied_junction_contents_present_before_flush|%s|%s" % (cn, pn), env.eq(cobj.vals[0], v, 0), key="junction_contents_supplied")
            state["pre_flush"] = {(c.name, pop.name): mr.comp_val(am, c, 0) for pop in model.pops for c in pop.comps}

        def post_flush(model):
            tot = 0.0
            for pop in model.pops:
                for c in pop.comps:
                    if not isinstance(c, am.SourceCompartment):
                        tot = tot + mr.comp_val(am, c, 0)
                    if isinstance(c, am.JunctionCompartment) and ("C04" in want or "C01" in want):
                        env.claim("C04_junction_empty_after_initial_flush|%s|%s" % (c.name, pop.name), env.eq(c.vals[0], 0.0, 0), key="flush_empty")
            if "C04" in want or "C01" in want:
                env.claim("C04_initial_flush_preserves_total", env.eq(tot, state["pre_flush_total"]), key="flush_total")
            if "C04" in want and name in gen.FLUSH_SPEC:
                # the people initially in a junction are split by the proportions *as the model defines them on the initial state*
                # (function-valued proportions evaluated at t0, data-valued ones as stored); junctions feeding compartments only
                for pop in model.pops:
                    before = {cn: v for (cn, pn), v in state["pre_flush"].items() if pn == pop.name}
                    for c in pop.comps:
                        if isinstance(c, am.JunctionCompartment) and all(not isinstance(l.dest, am.JunctionCompartment) for l in c.outlinks) and not isinstance(c, am.ResidualJunctionCompartment):
                            spec = {}
                            for l in c.outlinks:
                                f = gen.FLUSH_SPEC[name].get(l.parameter.name)
                                spec[l.dest.name] = env.smax(f(before) if f else l.parameter.vals[0], 0.0)
                            psum = 0.0
                            for v in spec.values():
                                psum = psum + v
                            for dn, pe in spec.items():
                                gained = mr.comp_val(am, pop.comp_lookup[dn], 0) - before[dn]
                                env.claim("C04_initial_flush_split_by_model_proportions|%s|%s>%s" % (pop.name, c.name, dn), env.eq(gained * psum, before[c.name] * pe), key="flush_split")
            # Inv after the flush: stocks >= 0 (cut)
            if env.cutting:
                for pop in model.pops:
                    for c in pop.comps:
                        if is_plain(c) or isinstance(c, am.SinkCompartment):
                            if "C02" in want:
                                env.claim("C02_stock_nonneg_after_flush|%s|%s" % (c.name, pop.name), nn(c.vals[0]), key="stock_nonneg")
                            c.vals[0] = env.cut(c.vals[0], "x0|%s|%s" % (c.name, pop.name), [nn])
                        elif isinstance(c, am.TimedCompartment):
                            for r in range(_rows(c)):
                                if "C02" in want:
                                    env.claim("C02_row_nonneg_after_flush|%s|%s|%d" % (c.name, pop.name, r), nn(c._vals[r, 0]), key="stock_nonneg")
                                c._vals[r, 0] = env.cut(c._vals[r, 0], "x0|%s|%s|r%d" % (c.name, pop.name, r), [nn])

        def post_links(model):
            ti = model._t_index
            dtm = model.dt
            for pop in model.pops:
                for c in pop.comps:
                    tag = "%s|%s|%d" % (c.name, pop.name, ti)
                    if isinstance(c, am.SourceCompartment):
                        for l in c.outlinks:
                            v = l.vals[ti]
                            if "C03" in want and l.parameter is not None:
                                env.claim("C03_source_emits_N_dt_over_T|" + tag, env.eq(v, env.smax(l.parameter.vals[ti], 0.0) * dtm / l.parameter.timescale, 1e-8), key="source_formula")
                            env.claim("G_source_flow_nonneg|" + tag, nn(v), key="flow_nonneg")
                            if env.cutting:
                                l.vals[ti] = env.cut(v, "f|%s|%s|%s" % (l.name, tag, l.dest.pop.name), [nn])
                    elif isinstance(c, am.JunctionCompartment):
                        inflow = 0.0
                        for l in c.inlinks:
                            inflow = inflow + mr.link_val(am, l, ti)
                        outflow = 0.0
                        for l in c.outlinks:
                            outflow = outflow + mr.link_val(am, l, ti)
                        env.claim("G_junction_out_equals_in|" + tag, env.eq(outflow, inflow), key="junction_balance")
                        for k, l in enumerate(c.outlinks):
                            if isinstance(l, am.TimedLink):
                                for r in range(l._vals.shape[0]):
                                    env.claim("G_junction_flow_nonneg|%s|%d|r%d" % (tag, k, r), nn(l._vals[r, ti]), key="flow_nonneg")
                            else:
                                env.claim("G_junction_flow_nonneg|%s|%d" % (tag, k), nn(l.vals[ti]), key="flow_nonneg")
                        if "C04" in want:
                            psum = 0.0
                            for l in c.outlinks:
                                if l.parameter is not None:
                                    psum = psum + env.smax(l.parameter.vals[ti], 0.0)
                            residual = isinstance(c, am.ResidualJunctionCompartment)
                            for k, l in enumerate(c.outlinks):
                                fl = mr.link_val(am, l, ti)
                                if l.parameter is None:
                                    env.claim("C04_residual_gets_remainder|%s|%d" % (tag, k), env.eq(fl, inflow * env.smax(1.0 - psum, 0.0)), key="residual_remainder")
                                else:
                                    pe = env.smax(l.parameter.vals[ti], 0.0)
                                    den = env.smax(psum, 1.0) if residual else psum
                                    env.claim("C04_split|%s|%d" % (tag, k), env.eq(fl * den, inflow * pe), key="split")
                    elif isinstance(c, am.TimedCompartment):
                        n = _rows(c)
                        rec = 0.0
                        for l in c.outlinks:
                            if isinstance(l, am.TimedLink):
                                for r in range(n):
                                    env.claim("G_timed_flow_nonneg|%s|%s|r%d" % (tag, l.dest.name, r), nn(l._vals[r, ti]), key="flow_nonneg")
                                    rec = rec + l._vals[r, ti]
                            else:
                                env.claim("G_flow_nonneg|%s|%s" % (tag, l.dest.name), nn(l.vals[ti]), key="flow_nonneg")
                                rec = rec + l.vals[ti]
                        cached = 0.0
                        for r in range(n):
                            env.claim("G_row_not_overdrawn|%s|r%d" % (tag, r), env.le(c._cached_outflow[r], c._vals[r, ti], 0) & nn(c._cached_outflow[r]), key="not_overdrawn")
                            cached = cached + c._cached_outflow[r]
                        env.claim("G_cached_outflow_is_recorded_outflow|" + tag, env.eq(cached, rec), key="cached_outflow")
                        env.claim("G_flush_empties_final_bin|" + tag, env.eq(c._cached_outflow[0], c._vals[0, ti], 0), key="flush_empties_row0")
                        if "C05" in want:
                            for l in c.outlinks:
                                if isinstance(l, am.TimedLink):
                                    env.claim("C05_no_duration_preserving_move_from_final_bin|%s|%s" % (tag, l.dest.name), env.eq(l._vals[0, ti], 0.0, 0), key="timed_row0_zero")
                    elif isinstance(c, am.SinkCompartment):
                        pass
                    else:
                        stock = c.vals[ti]
                        flows = [l.vals[ti] for l in c.outlinks]
                        tot = 0.0
                        for f in flows:
                            tot = tot + f
                        for k, f in enumerate(flows):
                            env.claim("G_flow_nonneg|%s|%d" % (tag, k), nn(f), key="flow_nonneg")
                        env.claim("G_not_overdrawn|" + tag, env.le(tot, stock, 0), key="not_overdrawn")
                        if c.outlinks:
                            env.claim("G_cached_outflow_is_recorded_outflow|" + tag, env.eq(c._cached_outflow, tot, 0), key="cached_outflow")
                        if ("C03" in want or "C02" in want) and c.outlinks and all(l.parameter is not None for l in c.outlinks):
                            fr = []
                            for l in c.outlinks:
                                par = l.parameter
                                popsize = 0.0
                                if par.units == "number":
                                    for l2 in par.links:
                                        popsize = popsize + mr.comp_val(am, l2.source, ti)
                                fr.append(frac_spec(env, par.units, par.vals[ti], dtm, par.timescale, popsize))
                            S = 0.0
                            for f in fr:
                                S = S + f
                            if "C03" in want:
                                for k, l in enumerate(c.outlinks):
                                    env.claim("C03_flow_formula|%s|%d" % (tag, k), env.eq(flows[k] * env.smax(S, 1.0), stock * fr[k], 1e-8), key="flow_formula[%s]" % l.parameter.units)
                            if "C02" in want:
                                for k in range(len(flows)):
                                    env.claim("C02_negative_parameter_zero_flow|%s|%d" % (tag, k), env.eq(flows[k], 0.0, 0), under=env.b(c.outlinks[k].parameter.vals[ti] <= 0), key="negative_par_zero_flow")
            # ---- cut all recorded flows (fresh, >= 0) and re-tie the caches to the cut values
            if not env.cutting:
                return
            for pop in model.pops:
                for c in pop.comps:
                    tag = "%s|%s|%d" % (c.name, pop.name, ti)
                    if isinstance(c, am.SourceCompartment):
                        continue
                    if isinstance(c, am.JunctionCompartment):
                        inflow = 0.0  # inflows into the junction have been cut below/above already? (order: junction inflows come from non-junction comps or upstream junctions)
                    if isinstance(c, am.TimedCompartment):
                        n = _rows(c)
                        newc = [0.0] * n
                        for lk, l in enumerate(c.outlinks):
                            if isinstance(l, am.TimedLink):
                                for r in range(n):
                                    if r == 0:
                                        l._vals[0, ti] = 0.0 if not shim.is_sym(l._vals[0, ti]) else l._vals[0, ti]
                                        newc[0] = newc[0] + l._vals[0, ti]
                                        continue
                                    cv = env.cut(l._vals[r, ti], "tf|%s|%d|r%d" % (tag, lk, r), [nn])
                                    l._vals[r, ti] = cv
                                    newc[r] = newc[r] + cv
                            elif l is c.flush_link:
                                cv = env.cut(l.vals[ti], "flush|" + tag, [nn])
                                l.vals[ti] = cv
                                newc[0] = newc[0] + cv
                            else:
                                # ordinary link: per-row shares are not recorded; cut the shares, the link value is their sum
                                tot = 0.0
                                for r in range(n):
                                    sh = env.cut(None, "of|%s|%d|r%d" % (tag, lk, r), [nn])
                                    newc[r] = newc[r] + sh
                                    tot = tot + sh
                                l.vals[ti] = tot
                        c._cached_outflow = env.array(newc)
                        for r in range(n):
                            env.assume(env.le(newc[r], c._vals[r, ti], 0), "cut: row outflow <= row (claim G_row_not_overdrawn)")
                        env.assume(env.eq(newc[0], c._vals[0, ti], 0), "cut: the flush empties the final bin (claim G_flush_empties_final_bin)")
                    elif isinstance(c, am.JunctionCompartment):
                        continue
                    elif isinstance(c, am.SinkCompartment):
                        continue
                    else:
                        tot = 0.0
                        for k, l in enumerate(c.outlinks):
                            if isinstance(l, am.TimedLink):
                                raise RuntimeError("TimedLink out of an ordinary compartment")
                            cv = env.cut(l.vals[ti], "f|%s|%d" % (tag, k), [nn])
                            l.vals[ti] = cv
                            tot = tot + cv
                        if c.outlinks:
                            c._cached_outflow = tot
                            env.assume(env.le(tot, c.vals[ti], 0), "cut: recorded outflow <= stock (claim G_not_overdrawn)")
            # junction outflows: cut in execution order with sum(out) == sum(in) over the (already cut) inflows
            for j in model._exec_order["junctions"]:
                tag = "%s|%s|%d" % (j.name, j.pop.name, ti)
                if j.duration_group:
                    nrow = j.outlinks[0]._vals.shape[0] if j.outlinks else 0
                    for r in range(nrow):
                        inflow = 0.0
                        for l in j.inlinks:
                            inflow = inflow + l._vals[r, ti]
                        tot = 0.0
                        for k, l in enumerate(j.outlinks):
                            cv = env.cut(l._vals[r, ti], "jf|%s|%d|r%d" % (tag, k, r), [nn])
                            l._vals[r, ti] = cv
                            tot = tot + cv
                        env.assume(env.eq(tot, inflow, 0), "cut: junction row outflow == inflow (claim G_junction_out_equals_in, per row by linearity of balance)")
                else:
                    inflow = 0.0
                    for l in j.inlinks:
                        inflow = inflow + mr.link_val(am, l, ti)
                    tot = 0.0
                    for k, l in enumerate(j.outlinks):
                        cv = env.cut(l.vals[ti], "jf|%s|%d" % (tag, k), [nn])
                        l.vals[ti] = cv
                        tot = tot + cv
                    env.assume(env.eq(tot, inflow, 0), "cut: junction outflow == inflow (claim G_junction_out_equals_in)")

        def post_comps(model):
            ti = model._t_index  # index just written
            tr = ti - 1
            tot_new = 0.0
            tot_old = 0.0
            src_out = 0.0
            for pop in model.pops:
                for c in pop.comps:
                    tag = "%s|%s|%d" % (c.name, pop.name, tr)
                    if isinstance(c, am.SourceCompartment):
                        for l in c.outlinks:
                            src_out = src_out + l.vals[tr]
                        continue
                    new = mr.comp_val(am, c, ti)
                    old = mr.comp_val(am, c, tr)
                    tot_new = tot_new + new
                    tot_old = tot_old + old
                    if isinstance(c, am.JunctionCompartment):
                        if "C04" in want or "C01" in want:
                            env.claim("C04_junction_stays_empty|" + tag, env.eq(new, 0.0, 0), key="junction_empty")
                        continue
                    inflow = 0.0
                    for l in c.inlinks:
                        inflow = inflow + mr.link_val(am, l, tr)
                    outflow = 0.0
                    for l in c.outlinks:
                        outflow = outflow + mr.link_val(am, l, tr)
                    if "C01" in want:
                        env.claim("C01_balance|" + tag, env.eq(new, old + inflow - outflow), key="balance")
                    if "C02" in want:
                        if isinstance(c, am.TimedCompartment):
                            for r in range(_rows(c)):
                                env.claim("C02_row_nonneg|%s|r%d" % (tag, r), nn(c._vals[r, ti]), key="stock_nonneg")
                        else:
                            env.claim("C02_stock_nonneg|" + tag, nn(new), key="stock_nonneg")
                    if "C05" in want and isinstance(c, am.TimedCompartment):
                        n = _rows(c)
                        plain_in = 0.0
                        for l in c.inlinks:
                            if not isinstance(l, am.TimedLink):
                                plain_in = plain_in + l.vals[tr]
                        for r in range(n - 1):
                            tin = 0.0
                            for l in c.inlinks:
                                if isinstance(l, am.TimedLink) and l._vals.shape[0] > r + 1:
                                    tin = tin + l._vals[r + 1, tr]
                                if isinstance(l, am.TimedLink) and l._vals.shape[0] > n and r + 1 == n - 1:
                                    for rr in range(n, l._vals.shape[0]):
                                        tin = tin + l._vals[rr, tr]
                            env.claim("C05_shift|%s|r%d" % (tag, r), env.eq(c._vals[r, ti], c._vals[r + 1, tr] - state["cached"][(c.name, pop.name)][r + 1] + tin), key="shift")
                        if n > 1:
                            env.claim("C05_new_arrivals_in_last_row|" + tag, env.eq(c._vals[n - 1, ti], plain_in), key="last_row")
            if "C01" in want:
                env.claim("C01_total_changes_only_by_source_outflow|%d" % tr, env.eq(tot_new, tot_old + src_out), key="total")
            # Inv: cut the new stocks
            if env.cutting:
                for pop in model.pops:
                    for c in pop.comps:
                        if is_plain(c) or isinstance(c, am.SinkCompartment):
                            c.vals[ti] = env.cut(c.vals[ti], "x%d|%s|%s" % (ti, c.name, pop.name), [nn])
                        elif isinstance(c, am.TimedCompartment):
                            for r in range(_rows(c)):
                                c._vals[r, ti] = env.cut(c._vals[r, ti], "x%d|%s|%s|r%d" % (ti, c.name, pop.name, r), [nn])

        def pre_comps(model):
            state["cached"] = {}
            for pop in model.pops:
                for c in pop.comps:
                    if isinstance(c, am.TimedCompartment):
                        state["cached"][(c.name, pop.name)] = [c._cached_outflow[r] for r in range(_rows(c))]

        # ------------------------------------------------------------------ run
        with mr.session(env):
            mr.symbolize_parset(env, ps, F, comps=False)
            m0 = am.Model(P.settings, F, P.parsets[0])
            init = mr.symbolic_state(env, m0)
            if junction_init:
                for pop in m0.pops:
                    for c in pop.comps:
                        if isinstance(c, am.JunctionCompartment):
                            init.values[(c.name, pop.name)] = env.real("j0|%s|%s" % (c.name, pop.name), 0, 1e6) if not c.duration_group else 0.0
                            if not c.duration_group:
                                state.setdefault("supplied_junction_contents", {})[(c.name, pop.name)] = init.values[(c.name, pop.name)]
            ps.initialization = init
            m = mr.build_model(env, P.settings, F, ps)
            with Hooks(am, pre=dict(flush_junctions=pre_flush, update_comps=pre_comps), post=dict(update_pars=post_pars, flush_junctions=post_flush, update_links=post_links, update_comps=post_comps)):
                m.process()
        if "C02" in want:
            for k, g in enumerate(env.nonfinite_guards()):
                env.claim("C02_no_nonfinite_value_stored_%d" % k, env.true(~g) if env.symbolic else env.true(True), key="finite")

    return body


def wiring_body(name, dur, dt_num, dt_den, T=4, y_factor=1.0):
    """Concrete structure check on the real built model (no symbolic numbers needed): the step size every variable carries is
    the settings' step size, and every timed compartment has ceil(D/dt) rows with D/dt evaluated in exact rational arithmetic"""

    def body(env):
        from fractions import Fraction
        import math

        am, ap, au, apar, afp = mr.modules()
        dt = dt_num / dt_den
        P = gen.make_project(gen.CATALOGUE[name]() if name == "M7F" else gen.CATALOGUE[name](dur), start=2000.0, end=2000.0 + dt * (T - 1), dt=dt)
        if y_factor != 1.0:
            for pop in P.parsets[0].pars["dur"].y_factor.keys():
                P.parsets[0].pars["dur"].y_factor[pop] = y_factor
        m = am.Model(P.settings, P.framework, P.parsets[0])
        durations = {"dur": Fraction(dur).limit_denominator(10**6) * Fraction(y_factor).limit_denominator(1000), "dur2": Fraction(3, 4)}
        if name == "M7F":
            durations["dur"] = Fraction(1)  # the framework function 2*base (base = 0.5), not the parameter's own default of 0.25
        # the duration is the parameter's value (databook value x calibration factor, or its function: C06)
        for pop in m.pops:
            env.claim("duration_parameter_value|%s" % pop.name, env.true(abs(float(pop.par_lookup["dur"].vals[0]) - float(durations["dur"] if name == "M7F" else dur * y_factor)) <= 1e-12), key="duration_value")
        env.claim("model_step_is_settings_step", env.true(m.dt == P.settings.sim_dt), key="model_dt")
        ok = True
        for pop in m.pops:
            for var in pop.comps + pop.links + pop.pars:
                if var.dt is not None and var.dt != P.settings.sim_dt:
                    ok = False
        env.claim("every_variable_carries_the_settings_step", env.true(ok), key="model_dt")
        for pop in m.pops:
            for c in pop.comps:
                if isinstance(c, am.TimedCompartment):
                    want_rows = max(1, math.ceil(durations[c.parameter.name] / Fraction(dt_num, dt_den)))
                    env.claim("keyring_rows|%s" % c.name, env.true(c._vals.shape[0] == want_rows), key="keyring_rows", meta=dict(rows=int(c._vals.shape[0]), expected=want_rows))
        # moves inside a duration group keep the elapsed time (TimedLink, also through junctions of the group); every other move,
        # the timed outflow included, restarts it (plain Link)
        F = P.framework
        grp = {c: (F.comps.at[c, "duration group"] if isinstance(F.comps.at[c, "duration group"], str) and F.comps.at[c, "duration group"] else None) for c in F.comps.index}
        for pop in m.pops:
            for l in pop.links:
                sg, dg = grp.get(l.source.name), grp.get(l.dest.name)
                is_flush = isinstance(l.source, am.TimedCompartment) and l.source.flush_link is l
                expect_timed = (sg is not None) and (sg == dg) and not is_flush
                env.claim("link_keeps_elapsed_time_iff_same_group|%s>%s" % (l.source.name, l.dest.name), env.true(isinstance(l, am.TimedLink) == expect_timed), key="link_type", meta=dict(source_group=sg, dest_group=dg, timed=isinstance(l, am.TimedLink)))
            for c in pop.comps:
                if isinstance(c, am.JunctionCompartment):
                    env.claim("junction_group_membership|%s" % c.name, env.true((c.duration_group or None) == grp.get(c.name)), key="junction_group")
        k = len(m.t) - 1
        env.claim("grid_is_start_plus_k_dt", env.true(all(abs(float(m.t[i]) - (2000.0 + i * dt)) <= 1e-9 for i in range(len(m.t)))), key="grid")

    return body


SPREAD = [(0.5, 0.25), (0.6, 0.25), (1.1, 0.25), (2.0, 0.3), (0.1, 0.25)]


def init_spread_body(dur, dt):
    """The initial occupants of a timed compartment are spread uniformly over its ceil(D/dt) rows, whatever the fractional part
    of D/dt (symbolic initial size, real Model.__init__/build/initialize_compartments)"""

    def body(env):
        am, ap, au, apar, afp = mr.modules()
        P = gen.make_project(gen.CATALOGUE["M7"](dur), start=2000.0, end=2000.0 + 2 * dt, dt=dt)
        ps = copy.deepcopy(P.parsets[0])
        with mr.session(env):
            vals = mr.symbolize_parset(env, ps, P.framework, pars=[], comps=True)
            m = am.Model(P.settings, P.framework, ps)
            for pop in m.pops:
                for c in pop.comps:
                    if isinstance(c, am.TimedCompartment):
                        n = c._vals.shape[0]
                        entered = ps.pars[c.name].ts[pop.name].assumption
                        tot = 0.0
                        for r in range(n):
                            tot = tot + c._vals[r, 0]
                            env.claim("row_holds_equal_share|%s|r%d" % (c.name, r), env.eq(c._vals[r, 0] * n, entered), key="uniform_initial_spread")
                        env.claim("rows_add_up_to_entered_size|%s" % c.name, env.eq(tot, entered), key="initial_total")

    return body


STUBS = [
    "numpy/math/sciris/scipy in atomica.model, programs, utils, parameters, function_parser -> vsym shims",
    "merge points as in the kernel groups; Population.initialize_compartments merged; Model.update_links per-parameter loop outlined",
    "harness hooks after Model.update_pars/flush_junctions/update_links/update_comps state the obligations and cut the checked values (fresh variables with the proved guarantees)",
    "initial state: explicit Initialization with arbitrary non-negative stocks (junction contents symbolic in the junction_init groups)",
]


def _funcs():
    import atomica.model as am
    from checks.kern import _funcs as kf

    return kf() + [am.Model.__init__, am.Model.build, am.Model.process, am.Model.update_pars, am.Model._set_exec_order, am.Population.build, am.Population.initialize_compartments, am.Parameter.update, am.Parameter.constrain, am.Characteristic.update]


def specs(prop, tier):
    q = tier == "quick"
    out = []
    if prop in ("C01", "C02", "C03"):
        lst = [("M1", 3, {}), ("M2", 3, {}), ("M4", 3, {}), ("M6", 3, {}), ("M6S", 3, dict(junction_init=True)), ("M7", 4, {}), ("M10", 3, {}), ("M12", 3, {}), ("M1", 3, dict(pops=2, transfers=1)), ("M7", 4, dict(pops=2, transfers=1))]
        if not q:
            lst += [("M5", 3, {}), ("M8", 4, {}), ("M7", 4, dict(dt=0.5)), ("M8", 5, dict(dt=0.125))]
        if prop == "C03" and q:
            lst.remove(("M1", 3, dict(pops=2, transfers=1)))  # 6 min of nonlinear queries with the extra transfer outflow on every compartment: thorough tier
        if prop in ("C01", "C02"):
            lst += [("M5", 3, dict(junction_init=True)), ("M5C", 3, dict(junction_init=True)), ("M5R", 3, dict(junction_init=True)), ("M8", 4, {}), ("M8J", 4, {})] if q else [("M5R", 3, dict(junction_init=True)), ("M8J", 4, {}), ("M8R", 4, {})]
    elif prop == "C04":
        lst = [("M4", 3, dict(junction_init=True)), ("M5C", 3, dict(junction_init=True)), ("M5F", 3, dict(junction_init=True)), ("M5", 3, dict(junction_init=True)), ("M5R", 3, dict(junction_init=True)), ("M6", 3, dict(junction_init=True)), ("M6", 3, dict(junction_init=True, pops=2, transfers=1)), ("M8", 4, {}), ("M8J", 4, {}), ("M12", 3, dict(junction_init=True))]
        if not q:
            lst += [("M8R", 4, {})]
    elif prop == "C05":
        lst = [("M7", 4, {}), ("M8", 4, {}), ("M8J", 4, {}), ("M8R", 4, {}), ("M8B", 4, {}), ("M7", 4, dict(pops=2, transfers=1)), ("M7", 4, dict(pops=2, transfers=1, durs=(0.5, 0.75))), ("M7", 4, dict(pops=2, transfers=1, durs=(0.75, 0.25)))]
        if not q:
            lst += [("M7", 6, dict(dt=0.125)), ("M8", 5, dict(dt=0.125))]
    else:
        lst = []
    if prop in ("C01", "C02", "C04") or (prop == "C03" and not q):
        # pseudo-random valid frameworks (gen.random_spec): structures nobody thought of
        seeds = [14, 21, 29] if q else (gen.RANDOM_SEEDS if prop != "C03" else [5, 9, 12, 14, 21, 29])
        if q and prop == "C04":
            seeds = [21, 29]  # R14 needs 1-11 minutes of nonlinear solving for the C04 claims: thorough tier only
        for sd in seeds:
            spec = gen.random_spec(sd)
            has_j = any(c.get("junction") for c in spec["comps"])
            if prop == "C04" and not has_j:
                continue
            lst.append(("R%d" % sd, 3, dict(junction_init=True) if has_j else {}))
    seen = set()
    for name, T, kw in lst:
        nm = "model[%s;T=%d%s]" % (name, T, "".join(";%s=%s" % (k, v) for k, v in sorted(kw.items())))
        if nm in seen:
            continue
        seen.add(nm)
        out.append((nm, dict(name=name, T=T, **kw)))
    if prop in ("C01", "C02") :
        libs = ["udt_dyn", "tb_simple_dyn"] if q else ["udt", "usdt", "udt_dyn", "tb_simple", "tb_simple_dyn", "hiv_dyn", "diabetes", "cervicalcancer"]  # hypertension_dyn: one incremental z3 query ignores its timeout on some runs (ran clean twice, hung once): left out
        for lib in libs:
            out.append(("model[%s;T=2]" % lib, dict(name=lib, T=2)))
    return out


WIRING = [("M7", 0.5, 1, 12, 1.0), ("M7", 0.25, 1, 12, 1.0), ("M8", 0.5, 1, 52, 1.0), ("M7", 0.3, 1, 10, 1.0), ("M7", 2.0, 1, 4, 1.0), ("M7", 0.02, 1, 12, 1.0), ("M7", 0.5, 1, 4, 2.0), ("M8", 0.75, 1, 4, 0.5), ("M8R", 0.5, 1, 4, 1.0), ("M8B", 0.5, 1, 4, 1.0), ("M8J", 0.5, 1, 4, 1.0), ("M7F", 0.25, 1, 4, 1.0)]


def groups(prop, tier):
    gs = []
    if prop in ("C05", "C03"):
        for name, dur, a, b, yf in WIRING:
            nm = "wiring[%s;D=%g;dt=%d/%d%s]" % (name, dur, a, b, ";y_factor=%g" % yf if yf != 1.0 else "")
            body = wiring_body(name, dur, a, b, y_factor=yf)

            def gw(tier_, seed, _body=body, _nm=nm):
                return run_body(_body, _nm, tier_, seed, functions=_funcs(), bounds=dict(kind="concrete structure check of the real Model.__init__/build"), stubs=["none (concrete execution of the real code; exact rational reference for ceil(D/dt))"], timeout_ms=10000, replay_witnesses=False)

            gw.__name__ = nm
            gs.append(gw)
    if prop == "C05":
        for dur, dt in SPREAD:
            nm = "init_spread[D=%g;dt=%g]" % (dur, dt)
            body = init_spread_body(dur, dt)

            def gi(tier_, seed, _body=body, _nm=nm, _b=dict(D=dur, dt=dt)):
                return run_body(_body, _nm, tier_, seed, functions=_funcs(), bounds=dict(_b, values="initial sizes <= 1e6"), stubs=STUBS[:1], timeout_ms=60000, declared_exceptions=("BadInitialization",))

            gi.__name__ = nm
            gs.append(gi)
    for nm, kw in specs(prop, tier):
        body = step_body(want={prop}, **kw)

        def g(tier_, seed, _body=body, _nm=nm, _kw=kw):
            return run_body(_body, _nm, tier_, seed, functions=_funcs(), bounds=dict(_kw, values="stocks <= 1e6, parameter values in unit-specific ranges, dt concrete"), stubs=STUBS, timeout_ms=120000)

        g.__name__ = nm
        gs.append(g)
    return gs


def replay(prop, rec):
    for name, dur, a, b, yf in WIRING:
        if rec["replay"]["group"] == "wiring[%s;D=%g;dt=%d/%d%s]" % (name, dur, a, b, ";y_factor=%g" % yf if yf != 1.0 else ""):
            return replay_body(wiring_body(name, dur, a, b, y_factor=yf), rec["model"], rec["replay"]["claim"])
    for dur, dt in SPREAD:
        if rec["replay"]["group"] == "init_spread[D=%g;dt=%g]" % (dur, dt):
            return replay_body(init_spread_body(dur, dt), rec["model"], rec["replay"]["claim"])
    for nm, kw in specs(prop, "thorough") + specs(prop, "quick"):
        if nm == rec["replay"]["group"]:
            return replay_body(step_body(want={prop}, **kw), rec["model"], rec["replay"]["claim"])
    return None
