"""C04 -- see DESIGN.md §5 C04. Kernel-level groups (checks/kern.py); model-level groups are added in checks/modelstep.py"""
from checks import kern, modelstep

TECHNIQUE = "symbolic execution of the real integration methods (Model.update_links/update_comps/flush_junctions and the Compartment/Junction/Timed kernels) on z3-real proxies with state merging and cuts; SMT obligations (z3, cvc5 portfolio); counterexamples replayed on the unpatched code"
EXPLANATION = 'Real JunctionCompartment/ResidualJunctionCompartment.balance and initial_flush (through Model.update_links / Model.flush_junctions) on fans of 1-4 outflows, with and without a residual link, 1-2 inflows, a chain of two junctions, and flushing into a timed compartment; proportions symbolic in [0,10] (and of any sign in the region-split groups). Obligations: outflow == inflow, junction empty at both indices, split_i * sum(p) == inflow * p_i (plain), split_i * max(1,sum p) == inflow * p_i and residual == inflow * max(0, 1 - sum p) (residual), flush shares and total preservation, through the chain. Bounds: micro-graphs as listed per group; |values| <= 1e9, dt in [1/365,5], timescales in [1e-3,1e3]; real arithmetic (tolerance 1e-9 relative, 1e-8 for C03). Outside: larger fan-outs, float rounding, multi-step interactions other than through the arbitrary pre-state.'
GROUP_TIMEOUT = {"quick": 1800, "thorough": 3600}


def groups(tier):
    return kern.kernel_groups("C04", tier) + modelstep.groups("C04", tier)


def replay(rec):
    if rec["replay"].get("group", "").startswith(("model[", "wiring[", "init_spread[")):
        return modelstep.replay("C04", rec)
    return kern.kernel_replay("C04", rec)
