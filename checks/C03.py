"""C03 -- see DESIGN.md §5 C03. Kernel-level groups (checks/kern.py); IEEE-mode groups in checks/fpgrid.py"""
from checks import kern, fpgrid, modelstep

TECHNIQUE = "symbolic execution of the real integration methods on z3-real proxies with state merging and cuts, plus IEEE-754 (QF_FP) execution of the real grid/keyring size code; SMT obligations (z3, cvc5 portfolio); counterexamples replayed on the unpatched code"
EXPLANATION = "Same real step; obligations: each recorded flow times max(1, sum of requested fractions) equals stock times the documented fraction (probability/rate p*dt/T, duration dt/(d*T), number N*dt/T over the parameter's total source size, 0 for an empty source), source compartments emit exactly N*dt/T, a number parameter shared by two compartments is split by source size, timed duration-preserving links follow the same rule per row. Bounds: micro-graphs as listed per group; |values| <= 1e9, dt in [1/365,5], timescales in [1e-3,1e3]; real arithmetic (tolerance 1e-9 relative, 1e-8 for C03). Outside: larger fan-outs, float rounding, multi-step interactions other than through the arbitrary pre-state."
GROUP_TIMEOUT = {"quick": 1800, "thorough": 3600}


def groups(tier):
    return kern.kernel_groups("C03", tier) + modelstep.groups("C03", tier) + fpgrid.c03_fp_groups(tier)


def replay(rec):
    if rec["replay"].get("group") in ("grid", "keyring"):
        return fpgrid.fp_replay(rec)
    if rec["replay"].get("group", "").startswith(("model[", "wiring[", "init_spread[")):
        return modelstep.replay("C03", rec)
    return kern.kernel_replay("C03", rec)
