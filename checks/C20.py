"""
C20 -- reported aggregates depend only on what was asked for and add up.

Real code: plotting.PlotData.__init__ (output and population aggregation), Series.__init__, PlotData.accumulate,
PlotData.time_aggregate, cascade.get_cascade_vals, cascade.get_cascade_data, on a real built model whose every output array is
symbolic.
"""

import copy
import itertools
import numpy as np
from vsym import shim, modelrun as mr, gen
from vsym.env import run_body, replay_body
from vsym.core import _same
from checks.modelstep import project

TECHNIQUE = "symbolic execution of the real PlotData/Series/cascade code on z3-real proxies (every result array of a real built model is a vector of symbolic reals); pairs of calls compared by term identity / SMT equality; SMT obligations for sums, averages, weighted averages and cascade monotonicity; replay on the unpatched code"
EXPLANATION = (
    "A real Result of M12 with three populations (T = 3) carries free symbolic reals in every compartment, parameter and link array. Obligations: (i) for all orders and subsets of a list of outputs (plain compartment/parameter/flow names, named aggregations with default and explicit "
    "aggregation method, a formula) and of population selections (plain names, named aggregations with default/explicit method) the series reported for an (output, population) pair is the same term; (ii) summed aggregates equal the sum of their parts, averages equal sum/n (hence between min and max), "
    "weighted averages equal sum(w*v)/sum(w) with the documented weights, the total of a number quantity equals the sum over populations; (iii) after PlotData construction, accumulate('sum'|'integrate') and time_aggregate the Result arrays are term-for-term unchanged, and a series' time aggregate "
    "does not depend on the other series in the call; (iv) cascade stage values from results never increase along a nested cascade for stocks >= 0, and cascade values from data equal the sum of the databook entries of each stage's constituents (ad hoc cascade sharing constituents). "
    "Bounds: <= 3 outputs and <= 3 populations per call (all permutations and subsets of those), T = 3. Outside: matplotlib rendering, Excel export files."
)
GROUP_TIMEOUT = {"quick": 1800, "thorough": 3600}


def M12t():
    d = gen.M12()
    d["name"] = "M12t"
    for p in d["pars"]:
        if p["name"] == "loss":
            p["timescale"] = 1.0 / 12  # a per-month rate: non-unit timescale for time aggregation
    d["characs"] = [dict(name="alive", components="undx,dx,tx,lost", setup=False), dict(name="known", components="dx,tx,lost", setup=False), dict(name="care", components="tx", setup=False)]
    return d


gen.CATALOGUE["M12t"] = M12t


def _result(env, pops=3, T=3):
    import atomica.results as ares

    am, ap, au, apar, afp = mr.modules()
    P = project("M12t", T, 0.25, pops=pops)
    m = am.Model(P.settings, P.framework, P.parsets[0])
    for pop in m.pops:
        for var in pop.comps + pop.pars + pop.links:
            nm = var.name if not isinstance(var, am.Link) else "%s>%s" % (var.source.name, var.dest.name)
            var.vals = env.array([env.real("%s|%s|%s|%d" % (type(var).__name__[:4], pop.name, nm, ti), 0, 1e6) for ti in range(T)])
            var.t = m.t
            var.dt = m.dt
            if isinstance(var, am.JunctionCompartment):
                var.vals = env.array([0.0] * T)  # junctions are empty at every index of a finished run (C04)
        for ch in pop.characs:
            ch.t = m.t
            ch._vals = None
    res = ares.Result(model=m, parset=P.parsets[0], name="r")
    return P, m, res


def _snapshot(am, m):
    out = []
    for pop in m.pops:
        for var in pop.comps + pop.pars + pop.links:
            out.append((pop.name, var.name, id(var.vals), list(var.vals)))
    return out


def _unchanged(a, b):
    return len(a) == len(b) and all(x[0] == y[0] and x[1] == y[1] and x[2] == y[2] and all(_same(p, q) for p, q in zip(x[3], y[3])) for x, y in zip(a, b))


def _patch(env):
    import atomica.plotting as apl
    import atomica.results as ares
    import atomica.cascade as acs

    am, ap, au, apar, afp = mr.modules()
    return env.installed(shim.patches_for(apl, ares, acs, am, au, afp, join_nonfinite_default=True))


def _series(d):
    return {(s.pop, s.output): s for s in d.series}


OUTPUTS = ["tx", "test", "loss:flow", {"care_cascade": ["dx", "tx"]}, {"probs": ["test", "ret"]}, {"ratio": "tx/(dx+tx)"}]


def _okey(o):
    return list(o.keys())[0] if isinstance(o, dict) else o


def independence_body(outs, pop_specs, output_aggregation=None, pop_aggregation=None):
    """Every (output, pop) series is the same term whatever the order / subset of the outputs and populations requested with it"""

    def body(env):
        import atomica.plotting as apl

        with _patch(env):
            P, m, res = _result(env)
            names = [p.name for p in m.pops]
            pops_all = [({"everyone": names} if ps == "agg_all" else ({"first_two": names[:2]} if ps == "agg_two" else names[ps])) for ps in pop_specs]
            ref = {}
            # reference: each output / population requested on its own
            for o in outs:
                for p in pops_all:
                    d = apl.PlotData(res, outputs=[copy.deepcopy(o)], pops=[copy.deepcopy(p)], output_aggregation=output_aggregation, pop_aggregation=pop_aggregation)
                    s = d.series[0]
                    ref[(s.pop, s.output)] = list(s.vals)
            k = 0
            for r in range(1, len(outs) + 1):
                for sub in itertools.permutations(outs, r):
                    for rp in range(1, len(pops_all) + 1):
                        for psub in itertools.permutations(pops_all, rp):
                            if r == 1 and rp == 1:
                                continue
                            d = apl.PlotData(res, outputs=[copy.deepcopy(o) for o in sub], pops=[copy.deepcopy(p) for p in psub], output_aggregation=output_aggregation, pop_aggregation=pop_aggregation)
                            k += 1
                            for s in d.series:
                                conds = [env.same(a, b) for a, b in zip(s.vals, ref[(s.pop, s.output)])]
                                env.claim("call%d[%s|%s]:%s@%s" % (k, ",".join(_okey(o) for o in sub), ",".join(_okey(p) for p in psub), s.output, s.pop), env.all(conds), key="order_independence[%s]" % s.output)

    return body


def sums_body():
    def body(env):
        import atomica.plotting as apl

        with _patch(env):
            P, m, res = _result(env)
            names = [p.name for p in m.pops]
            T = len(m.t)

            def arr(pop, name):
                return m.pops[names.index(pop)].get_variable(name)[0].vals

            d = apl.PlotData(res, outputs=[{"s": ["dx", "tx", "lost"]}], pops=[names[0]], output_aggregation="sum")
            for ti in range(T):
                env.claim("sum_of_outputs_t%d" % ti, env.eq(d.series[0].vals[ti], arr(names[0], "dx")[ti] + arr(names[0], "tx")[ti] + arr(names[0], "lost")[ti]), key="sum_outputs")
            d = apl.PlotData(res, outputs=[{"a": ["test", "ret"]}], pops=[names[1]], output_aggregation="average")
            for ti in range(T):
                a, b = arr(names[1], "test")[ti], arr(names[1], "ret")[ti]
                v = d.series[0].vals[ti]
                env.claim("average_of_outputs_t%d" % ti, env.eq(v * 2, a + b) & env.ge(v, env.smin(a, b)) & env.le(v, env.smax(a, b)), key="average_outputs")
            d = apl.PlotData(res, outputs=[{"w": ["test", "loss"]}], pops=[names[0]], output_aggregation="weighted")
            for ti in range(T):
                # weights: size of the source compartments of each parameter's links
                w1 = arr(names[0], "undx")[ti]
                w2 = arr(names[0], "tx")[ti]
                env.claim("weighted_average_of_outputs_t%d" % ti, env.eq(d.series[0].vals[ti] * (w1 + w2), arr(names[0], "test")[ti] * w1 + arr(names[0], "loss")[ti] * w2), under=env.b(w1 + w2 > 0), key="weighted_outputs")
            d = apl.PlotData(res, outputs=["tx"], pops=[{"total": names}])
            for ti in range(T):
                tot = 0.0
                for n in names:
                    tot = tot + arr(n, "tx")[ti]
                env.claim("total_of_number_quantity_is_sum_over_pops_t%d" % ti, env.eq(d.series[0].vals[ti], tot), key="pop_total")
            d = apl.PlotData(res, outputs=["test"], pops=[{"avg": names}])
            for ti in range(T):
                tot = 0.0
                for n in names:
                    tot = tot + arr(n, "test")[ti]
                env.claim("default_for_probability_is_average_over_pops_t%d" % ti, env.eq(d.series[0].vals[ti] * len(names), tot), key="pop_average")
            d = apl.PlotData(res, outputs=["test"], pops=[{"w": names[:2]}], pop_aggregation="weighted")
            for ti in range(T):
                ps = []
                for n in names[:2]:
                    sz = 0.0
                    for c in ("undx", "dx", "tx", "lost"):
                        sz = sz + arr(n, c)[ti]
                    ps.append(sz)
                num = arr(names[0], "test")[ti] * ps[0] + arr(names[1], "test")[ti] * ps[1]
                env.claim("population_weighted_average_t%d" % ti, env.eq(d.series[0].vals[ti] * (ps[0] + ps[1]), num), under=env.b(num != 0) & env.b(ps[0] + ps[1] > 0) if env.symbolic else (num != 0 and ps[0] + ps[1] > 0), key="pop_weighted")

    return body


def purity_body(op):
    """Producing plot data (and accumulating / time-aggregating it) never modifies the result"""

    def body(env):
        import atomica.plotting as apl

        am, ap, au, apar, afp = mr.modules()
        with _patch(env):
            P, m, res = _result(env)
            names = [p.name for p in m.pops]
            before = _snapshot(am, m)
            if op == "construct":
                apl.PlotData(res, outputs=["tx", "test", "loss:flow", {"agg": ["dx", "tx"]}], pops=[names[0], {"all": names}])
            elif op == "accumulate_sum":
                apl.PlotData(res, outputs=["tx", "dx"], pops=[names[0], names[1]], accumulate="sum")
            elif op == "accumulate_integrate":
                apl.PlotData(res, outputs=["tx", "loss:flow"], pops=[names[0]], accumulate="integrate")
            elif op == "time_aggregate":
                apl.PlotData(res, outputs=["loss", "tx"], pops=[names[0]], t_bins=0.5, time_aggregation="integrate")
            after = _snapshot(am, m)
            env.claim("result_unchanged_after_%s" % op, env.true(_unchanged(before, after)), key="result_unchanged[%s]" % op)
            if op == "time_aggregate":
                # the aggregate of a series does not depend on which other series (with another timescale) precede it
                alone = apl.PlotData(res, outputs=["tx"], pops=[names[0]], t_bins=0.5, time_aggregation="integrate")
                both = apl.PlotData(res, outputs=["loss", "tx"], pops=[names[0]], t_bins=0.5, time_aggregation="integrate")
                sb = _series(both)[(names[0], "tx")]
                env.claim("time_aggregate_independent_of_other_outputs", env.all([env.same(a, b) for a, b in zip(alone.series[0].vals, sb.vals)]), key="time_aggregate_independence")
                # integrate a compartment: trapezoid over [t0, t0+0.5]
                v = m.pops[0].comp_lookup["tx"].vals
                env.claim("time_aggregate_is_trapezoid", env.eq(alone.series[0].vals[0], 0.25 * (v[0] + v[1]) / 2 + 0.25 * (v[1] + v[2]) / 2), key="time_aggregate_value")
            if op == "accumulate_sum":
                d = apl.PlotData(res, outputs=["tx"], pops=[names[0]], accumulate="sum")
                v = m.pops[0].comp_lookup["tx"].vals
                env.claim("accumulate_sum_is_running_total", env.eq(d.series[0].vals[2], v[0] + v[1] + v[2]), key="accumulate_value")

    return body


def cascade_vals_body():
    def body(env):
        import atomica.cascade as acs

        with _patch(env):
            P, m, res = _result(env)
            names = [p.name for p in m.pops]
            for pops in (names[0], "all"):
                vals, t = acs.get_cascade_vals(res, cascade=None, pops=pops)  # the framework's fallback cascade: alive >= known >= care
                stages = list(vals.keys())
                for a, b in zip(stages, stages[1:]):
                    for ti in range(len(m.t)):
                        env.claim("cascade_non_increasing|%s|%s>=%s|t%d" % (pops, a, b, ti), env.ge(vals[a][ti], vals[b][ti]), key="cascade_monotone")
                tot = 0.0
                for p in m.pops if pops == "all" else m.pops[:1]:
                    tot = tot + p.comp_lookup["tx"].vals[0]
                env.claim("last_stage_is_sum_of_members|%s" % pops, env.eq(vals[stages[-1]][0], tot), key="cascade_value")

    return body


def adhoc_cascade_body():
    """An ad hoc cascade is either rejected as not properly nested or its stage values never increase"""

    def body(env):
        import atomica.cascade as acs

        with _patch(env):
            P, m, res = _result(env)
            names = [p.name for p in m.pops]
            cases = {
                "nested": {"everyone": ["alive"], "known": ["known"], "care": ["tx"]},
                "third_stage_inside_first_but_not_second": {"everyone": ["alive"], "known": ["known"], "odd": ["undx", "tx"]},
                "second_stage_outside_first": {"known": ["known"], "everyone": ["alive"]},
            }
            for label, casc in cases.items():
                try:
                    vals, t = acs.get_cascade_vals(res, cascade=casc, pops=names[0])
                except acs.InvalidCascade:
                    env.claim("properly_nested_cascade_is_accepted|%s" % label, env.true(label != "nested"), key="cascade_accept")
                    continue
                stages = list(vals.keys())
                for a, b in zip(stages, stages[1:]):
                    for ti in range(len(m.t)):
                        env.claim("adhoc_cascade_non_increasing|%s|%s>=%s|t%d" % (label, a, b, ti), env.ge(vals[a][ti], vals[b][ti]), key="adhoc_cascade_monotone")

    return body


def cascade_data_body():
    def body(env):
        import atomica.cascade as acs

        with _patch(env):
            P = project("M12t", 3, 0.25, pops=2)
            data = copy.deepcopy(P.data)
            names = list(data.pops.keys())
            years = [2000.0, 2001.0]
            vals = {}
            for code in ("dx", "tx", "lost"):
                for pop in names:
                    ts = data.get_ts(code, pop)
                    ts.t = list(years)
                    ts.vals = [env.real("data|%s|%s|%g" % (code, pop, y), 0, 1e6) for y in years]
                    ts.assumption = None
                    vals[(code, pop)] = ts.vals
            # ad hoc cascade whose stages share their first constituent
            cascade = {"known": ["dx", "tx", "lost"], "in care or lost": ["dx", "lost"], "diagnosed": ["dx"]}
            out, t = acs.get_cascade_data(data, P.framework, cascade, pops="all", year=years)
            out_desc, t_desc = acs.get_cascade_data(data, P.framework, cascade, pops="all", year=list(reversed(years)))
        for stage, members in cascade.items():
            for k, y in enumerate(years):
                tot = 0.0
                for code in members:
                    for pop in names:
                        tot = tot + vals[(code, pop)][k]
                env.claim("data_cascade|%s|%g" % (stage, y), env.eq(out[stage][k], tot), key="cascade_data")
                # the same entries whatever the order in which the years are asked for (values are reported against the years returned)
                kd = [i for i, ty in enumerate(t_desc) if float(ty) == y]
                env.claim("data_cascade_years_in_descending_order|%s|%g" % (stage, y), env.true(len(kd) == 1) & (env.eq(out_desc[stage][kd[0]], tot) if len(kd) == 1 else env.true(False)), key="cascade_data_year_order")

    return body


def cascade_data_ragged_body():
    """Data cascade over two populations whose entries are not in the same years: a stage is the sum of the entries of that year, and
    is not a number where an entry is missing (nothing carries over from another population or year)"""

    def body(env):
        import atomica.cascade as acs
        import math

        with _patch(env):
            P = project("M12t", 3, 0.25, pops=2)
            data = copy.deepcopy(P.data)
            names = list(data.pops.keys())
            years = [2000.0, 2001.0]
            have = {}
            for code in ("dx", "tx", "lost"):
                for pi, pop in enumerate(names):
                    ts = data.get_ts(code, pop)
                    yrs = list(years) if not (pi == 1 and code == "tx") else [2000.0]  # the second population has no 2001 entry for tx
                    ts.t = list(yrs)
                    ts.vals = [env.real("data|%s|%s|%g" % (code, pop, y), 0, 1e6) for y in yrs]
                    ts.assumption = None
                    for y, v in zip(yrs, ts.vals):
                        have[(code, pop, y)] = v
            cascade = {"known": ["dx", "tx", "lost"], "in care or lost": ["dx", "lost"]}
            out, t = acs.get_cascade_data(data, P.framework, cascade, pops="all", year=years)
        for stage, members in cascade.items():
            for k, y in enumerate(years):
                parts = [have.get((code, pop, y)) for code in members for pop in names]
                got = out[stage][k]
                if any(p is None for p in parts):
                    env.claim("data_cascade_missing_entry_is_nan|%s|%g" % (stage, y), env.true(isinstance(got, (float, np.floating)) and math.isnan(got)), key="cascade_data_missing")
                else:
                    tot = 0.0
                    for p in parts:
                        tot = tot + p
                    env.claim("data_cascade|%s|%g" % (stage, y), env.true(not (isinstance(got, (float, np.floating)) and math.isnan(got))) & env.eq(got, tot), key="cascade_data")

    return body


def transfer_flows_body():
    """Flow selectors in a model with transfers between populations: everything leaving a compartment ('tx:') is the sum of the flows
    to each destination ('tx:lost', and 'tx:tx' = the transfers out of this population's tx into the same compartment elsewhere)"""

    def body(env):
        import atomica.plotting as apl
        import atomica.results as ares

        am, ap, au, apar, afp = mr.modules()
        with _patch(env):
            P = project("M12t", 3, 0.25, pops=2, transfers=1)
            m = am.Model(P.settings, P.framework, P.parsets[0])
            T = len(m.t)
            for pop in m.pops:
                for var in pop.comps + pop.pars + pop.links:
                    nm = var.name if not isinstance(var, am.Link) else "%s>%s@%s" % (var.source.name, var.dest.name, var.dest.pop.name)
                    var.vals = env.array([env.real("%s|%s|%s|%d" % (type(var).__name__[:4], pop.name, nm, ti), 0, 1e6) for ti in range(T)])
                    if isinstance(var, am.JunctionCompartment):
                        var.vals = env.array([0.0] * T)
                for ch in pop.characs:
                    ch._vals = None
            res = ares.Result(model=m, parset=P.parsets[0], name="r")
            names = [p.name for p in m.pops]
            for pi, pop in enumerate(m.pops):
                tx = pop.comp_lookup["tx"]
                d = apl.PlotData(res, outputs=["tx:", "tx:lost", "tx:tx"], pops=[names[pi]])
                got = {s.output: list(s.vals) for s in d.series}
                for ti in range(T - 1):
                    by_dest = {}
                    for l in tx.outlinks:
                        by_dest[l.dest.name] = by_dest.get(l.dest.name, 0.0) + l.vals[ti] / m.dt
                    total = 0.0
                    for v in by_dest.values():
                        total = total + v
                    env.claim("outflow_is_sum_of_parts|%s|t%d" % (names[pi], ti), env.eq(got["tx:"][ti], got["tx:lost"][ti] + got["tx:tx"][ti]), key="flow_parts")
                    env.claim("selector_tx:tx_is_the_transfer_out_of_this_population|%s|t%d" % (names[pi], ti), env.eq(got["tx:tx"][ti], by_dest.get("tx", 0.0)), key="flow_selector")
                    env.claim("selector_tx:_is_everything_leaving|%s|t%d" % (names[pi], ti), env.eq(got["tx:"][ti], total), key="flow_selector")

    return body


def interpolation_body():
    """PlotData.interpolate: the value reported at a requested time is the linear interpolation of the series at that time, whatever
    other times are requested with it (also when the request has as many points as the simulation grid and the same end points)"""

    def body(env):
        import atomica.plotting as apl

        with _patch(env):
            P, m, res = _result(env)
            names = [p.name for p in m.pops]
            grid = [float(t) for t in m.t]
            outs = ["tx", {"care": ["dx", "tx"]}]
            pops = [names[0], {"total": names}]
            ref = apl.PlotData(res, outputs=copy.deepcopy(outs), pops=copy.deepcopy(pops))
            base = {(s.pop, s.output): list(s.vals) for s in ref.series}
            requests = {"same_size_same_ends": [grid[0], grid[0] + 0.1, grid[-1]], "single": [grid[0] + 0.1], "denser": [grid[0], grid[0] + 0.05, grid[1], grid[1] + 0.2, grid[-1]], "grid": list(grid)}
            for label, tv in requests.items():
                d = apl.PlotData(res, outputs=copy.deepcopy(outs), pops=copy.deepcopy(pops)).interpolate(np.array(tv))
                for s in d.series:
                    v0 = base[(s.pop, s.output)]
                    for k, t in enumerate(tv):
                        j = max(i for i in range(len(grid)) if grid[i] <= t)
                        if j == len(grid) - 1:
                            want = v0[j]
                        else:
                            w = (t - grid[j]) / (grid[j + 1] - grid[j])
                            want = v0[j] + (v0[j + 1] - v0[j]) * w
                        env.claim("interpolated|%s|%s@%s|t=%g" % (label, s.output, s.pop, t), env.eq(s.vals[k], want), key="interpolation")

    return body


def _funcs():
    import atomica.plotting as apl
    import atomica.cascade as acs

    return [apl.PlotData.__init__, apl.PlotData.accumulate, apl.PlotData.time_aggregate, apl.Series.__init__, acs.get_cascade_vals, acs.get_cascade_data, acs.sanitize_cascade]


def specs(tier):
    out = []
    out.append(("independence[plain outputs;3 pops]", independence_body, dict(outs=["tx", "test", "loss:flow"], pop_specs=[0, 1, 2])))
    out.append(("independence[named aggregations, default methods]", independence_body, dict(outs=[{"care_cascade": ["dx", "tx"]}, {"probs": ["test", "ret"]}, "tx"], pop_specs=[0, "agg_all"])))
    out.append(("independence[formula + mixed units;pop aggregations]", independence_body, dict(outs=[{"ratio": "tx/(dx+tx)"}, "test", "tx"], pop_specs=["agg_two", "agg_all", 1])))
    if tier != "quick":
        out.append(("independence[explicit sum]", independence_body, dict(outs=[{"care_cascade": ["dx", "tx"]}, {"probs": ["test", "ret"]}], pop_specs=[0, "agg_all"], output_aggregation="sum", pop_aggregation="sum")))
        out.append(("independence[explicit average]", independence_body, dict(outs=[{"probs": ["test", "ret"]}, "tx", "loss"], pop_specs=["agg_all", "agg_two"], output_aggregation="average", pop_aggregation="average")))
    out.append(("independence[weighted population aggregation]", independence_body, dict(outs=["test", "tx"], pop_specs=["agg_two", 2, "agg_all"], pop_aggregation="weighted")))
    out.append(("sums_and_averages", sums_body, dict()))
    for op in ("construct", "accumulate_sum", "accumulate_integrate", "time_aggregate"):
        out.append(("purity[%s]" % op, purity_body, dict(op=op)))
    out.append(("interpolation", interpolation_body, dict()))
    out.append(("flow_selectors[2 populations with transfers]", transfer_flows_body, dict()))
    out.append(("cascade_data[ragged years]", cascade_data_ragged_body, dict()))
    out.append(("cascade_values", cascade_vals_body, dict()))
    out.append(("cascade_adhoc", adhoc_cascade_body, dict()))
    out.append(("cascade_data", cascade_data_body, dict()))
    return out


def groups(tier):
    gs = []
    for nm, fac, kw in specs(tier):
        body = fac(**kw)

        def g(tier_, seed, _b=body, _nm=nm, _kw=kw):
            return run_body(_b, _nm, tier_, seed, functions=_funcs(), bounds=dict({k: str(v) for k, v in _kw.items()}, model="M12t, 3 populations, T=3"), stubs=["numpy/scipy/sciris in atomica.plotting, results, cascade, model, utils, function_parser -> vsym shims (np.interp, np.trapz, cumsum, cumulative_trapezoid over object arrays)", "result arrays are free symbolic reals (no integration is run)"], timeout_ms=60000, max_paths=300)

        g.__name__ = nm
        gs.append(g)
    return gs


def replay(rec):
    for nm, fac, kw in specs("thorough"):
        if nm == rec["replay"]["group"]:
            return replay_body(fac(**kw), rec["model"], rec["replay"]["claim"])
    return False, "unknown group"
