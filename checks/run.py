"""Driver: ./check <ID> [--tier quick|thorough] [--replay path]"""
import sys, os, time, json, argparse, importlib, warnings, logging

warnings.filterwarnings("ignore")
sys.set_int_max_str_digits(0)


def main():
    ap = argparse.ArgumentParser()
    ap.add_argument("prop")
    ap.add_argument("--tier", default=os.environ.get("VERIF_TIER", "quick"))
    ap.add_argument("--replay", default=None)
    ap.add_argument("--only", default=None, help="run only groups whose name contains this string (debugging; evidence still written)")
    ap.add_argument("--nproc", type=int, default=None)
    a = ap.parse_args()
    seed = int(os.environ.get("VERIF_SEED", "0") or 0)
    tier = a.tier if a.tier in ("quick", "thorough") else "quick"
    sys.path.insert(0, os.path.dirname(os.path.dirname(os.path.abspath(__file__))))
    logging.disable(logging.WARNING)  # atomica's logger output carries no semantics for the checks
    mod = importlib.import_module("checks.%s" % a.prop)
    from vsym import report

    if a.replay:
        rec = json.load(open(a.replay))
        ok, detail = mod.replay(rec)
        print(("REPRODUCED: " if ok else "NOT REPRODUCED: ") + detail)
        sys.exit(1 if ok else 0)
    t0 = time.time()
    groups = mod.groups(tier)
    if a.only:
        groups = [g for g in groups if a.only in g.__name__]
    results = report.run_groups(groups, tier, seed, nproc=a.nproc, group_timeout=getattr(mod, "GROUP_TIMEOUT", {}).get(tier, 900))
    rc = report.finish(a.prop, tier, seed, results, t0, mod.TECHNIQUE, mod.EXPLANATION, getattr(mod, "ASSUMPTIONS", ()))
    sys.exit(rc)


if __name__ == "__main__":
    main()
