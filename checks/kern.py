"""
Kernel-level harnesses shared by C01-C05: one real integration step (Model.update_links + Model.update_comps, and
Model.flush_junctions) on hand-wired micro-graphs of the real integration classes, from an arbitrary valid state.

Every body takes `want`: the set of property ids whose claims are to be made (each check claims only its own).
"""

import math
import numpy as np
from vsym import micro
from vsym.micro import StubPop, arr

VMAX = 1e9  # |parameter values|, stocks
DT_LO, DT_HI = 1.0 / 365, 5.0
TS_LO, TS_HI = 1e-3, 1e3


def _par(am, pop, name, units, timescale):
    p = am.Parameter(pop, name)
    p.units = units
    p.timescale = timescale
    pop.add_par(p)
    return p


def frac_spec(env, units, v, dt, T, popsize):
    """Documented per-step fraction for a transition parameter value v (docs/general/Parameters.rst, model docstrings)"""
    if units in ("probability", "rate"):
        return env.smax(v, 0.0) * dt / T
    if units == "duration":
        if env.symbolic:
            from vsym.core import where

            return where(v > 0, dt / (v * T), 0.0)  # the divisor is only used where v > 0
        return dt / (v * T) if v > 0 else 0.0
    if units == "number":
        n = env.smax(v, 0.0) * dt / T
        if env.symbolic:
            from vsym.core import where

            return where(popsize > 0, n / popsize, 0.0)
        return n / popsize if popsize > 0 else 0.0
    raise ValueError(units)


def star_body(units, n_in, want, shared_number=False, two_pars_one_pair=False, sink_dest=False):
    """
    Ordinary compartment `a` with one out-link per entry of `units` (own parameter, symbolic value of any sign, symbolic
    timescale) and n_in in-links from source compartments (number parameters).
    shared_number: the first parameter (must be 'number') also drives a link out of a second compartment a2 (shared popsize).
    two_pars_one_pair: the last two parameters drive the same (a -> d) pair.
    """

    def body(env):
        import atomica.model as am

        pop = StubPop()
        dt = env.real("dt", DT_LO, DT_HI)
        x = env.real("x", 0, VMAX)
        a = pop.add_comp(am.Compartment(pop, "a"))
        dests = []
        pars = []
        vals = []
        for i, u in enumerate(units):
            if two_pars_one_pair and i == len(units) - 1:
                d = dests[-1]
            else:
                d = pop.add_comp((am.SinkCompartment if (sink_dest and i == 0) else am.Compartment)(pop, "d%d" % i))
            dests.append(d)
            T = env.real("T%d" % i, TS_LO, TS_HI)
            p = _par(am, pop, "p%d" % i, u, T)
            v = env.real("v%d" % i, -VMAX, VMAX)
            pars.append(p)
            vals.append(v)
            a.connect(d, p)
        x2 = None
        if shared_number:
            assert units[0] == "number"
            a2 = pop.add_comp(am.Compartment(pop, "a2"))
            x2 = env.real("x2", 0, VMAX)
            a2.connect(dests[0], pars[0])
        srcs = []
        qs = []
        qv = []
        for j in range(n_in):
            s = pop.add_comp(am.SourceCompartment(pop, "s%d" % j))
            q = _par(am, pop, "q%d" % j, "number", env.real("Tq%d" % j, TS_LO, TS_HI))
            s.connect(a, q)
            srcs.append(s)
            qs.append(q)
            qv.append(env.real("n%d" % j, -VMAX, VMAX))
        tvec = micro.alloc(env, am, [pop])
        a.vals[0] = x
        y = []
        for k, d in enumerate(dict.fromkeys(dests)):
            yk = env.real("y%d" % k, 0, VMAX)
            d.vals[0] = yk
            y.append((d, yk))
        if shared_number:
            a2.vals[0] = x2
        for p, v in zip(pars, vals):
            p.vals[0] = v
        for q, v in zip(qs, qv):
            q.vals[0] = v
        m = micro.new_model(am, [pop], dt, tvec)
        # arbitrary left-overs of the previous step in every per-step cache (inductive step from an arbitrary reachable state)
        a._cached_outflow = env.real("stale_cached_outflow", 0, VMAX)
        for k, l in enumerate(pop.links):
            l._cache = env.real("stale_link_cache_%d" % k, 0, VMAX)
        for k, p in enumerate(pop.pars):
            p._source_popsize_cache_time = -1
            p._source_popsize_cache_val = env.real("stale_popsize_cache_%d" % k, 0, VMAX)
        with env.installed(micro.patches(am)), micro.merge_points(am, env.symbolic):
            env.heap(micro.heap_of([pop]))
            m.update_links()

            out = [l for l in a.outlinks]
            flows = [l.vals[0] for l in out]
            # ---- specification terms
            popsize = (x + x2) if shared_number else x
            fr = [frac_spec(env, u, v, dt, p.timescale, popsize) for u, v, p in zip(units, vals, pars)]
            S = 0.0
            for f in fr:
                S = S + f
            scale = env.smax(S, 1.0)
            tot_out = 0.0
            for f in flows:
                tot_out = tot_out + f
            inflow = [srcs[j].outlinks[0].vals[0] for j in range(n_in)]

            if "C03" in want:
                for i, l in enumerate(out):
                    env.claim("C03_flow_formula_%d" % i, env.eq(flows[i] * scale, x * fr[i], 1e-8), key="flow_formula[%s]" % units[i])
                for j in range(n_in):
                    env.claim("C03_source_emits_N_dt_over_T_%d" % j, env.eq(inflow[j], env.smax(qv[j], 0.0) * dt / qs[j].timescale, 1e-8), key="source_formula")
            if "C02" in want:
                for i in range(len(out)):
                    env.claim("C02_negative_parameter_zero_flow_%d" % i, env.eq(flows[i], 0.0, 0), under=env.b(vals[i] <= 0), key="negative_par_zero_flow")
                for i in range(len(out)):
                    for k in range(i + 1, len(out)):
                        env.claim("C02_common_scale_%d_%d" % (i, k), env.eq(flows[i] * fr[k], flows[k] * fr[i]), key="common_scale")
            # ---- guarantees of the link phase (G1+G2), always proved here because the compartment phase below runs on cuts
            for i in range(len(out)):
                env.claim("G_flow_nonneg_%d" % i, env.ge(flows[i], 0.0, 0), key="flow_nonneg")
            for j in range(n_in):
                env.claim("G_source_flow_nonneg_%d" % j, env.ge(inflow[j], 0.0, 0), key="flow_nonneg")
            env.claim("G_not_overdrawn", env.le(tot_out, x, 0), key="not_overdrawn")
            env.claim("G_cached_outflow_is_recorded_outflow", env.eq(a._cached_outflow, tot_out, 0), key="cached_outflow")
            if shared_number:
                o2 = a2.outlinks[0].vals[0]
                env.claim("G_flow_nonneg_a2", env.ge(o2, 0.0, 0), key="flow_nonneg")
                env.claim("G_not_overdrawn_a2", env.le(o2, x2, 0) & env.eq(a2._cached_outflow, o2, 0), key="not_overdrawn")
                if "C03" in want:
                    env.claim("C03_shared_number_split_by_source_size", env.eq(o2 * env.smax(fr[0], 1.0), x2 * fr[0], 1e-8), key="shared_number")

            # ---- cut: every recorded flow becomes a fresh variable carrying only the proved guarantees
            nn = lambda v: env.ge(v, 0.0, 0)
            cflows = []
            for i, l in enumerate(out):
                c = env.cut(l.vals[0], "flow%d" % i, [nn])
                l.vals[0] = c
                cflows.append(c)
            ctot = 0.0
            for c in cflows:
                ctot = ctot + c
            if env.cutting:
                a._cached_outflow = ctot
                env.assume(env.le(ctot, x, 0), "cut: recorded outflow <= stock (claim G_not_overdrawn)")
            cin = []
            for j in range(n_in):
                l = srcs[j].outlinks[0]
                c = env.cut(l.vals[0], "inflow%d" % j, [nn])
                l.vals[0] = c
                cin.append(c)
            if shared_number:
                l = a2.outlinks[0]
                c2 = env.cut(l.vals[0], "flow_a2", [nn, lambda v: env.le(v, x2, 0)])
                l.vals[0] = c2
                if env.cutting:
                    a2._cached_outflow = c2
            m._t_index = 1
            m.update_comps()

        tot_in = 0.0
        for c in cin:
            tot_in = tot_in + c
        if "C02" in want:
            env.claim("C02_next_stock_nonneg", env.ge(a.vals[1], 0.0, 0), key="stock_nonneg")
        if "C01" in want:
            env.claim("C01_balance_a", env.eq(a.vals[1], x - ctot + tot_in), key="balance")
            for d, yk in y:
                ind = 0.0
                for l in d.inlinks:
                    ind = ind + l.vals[0]
                env.claim("C01_balance_%s" % d.name, env.eq(d.vals[1], yk + ind), key="balance_dest")
            if shared_number:
                env.claim("C01_balance_a2", env.eq(a2.vals[1], x2 - c2), key="balance")

    return body


def timed_body(n, want, n2=None, with_timed_in=True, with_ordinary_out=True, with_timed_out=True, n_plain_in=1, timed_in_rows=None):
    """
    TimedCompartment tc (n rows) with flush link, an ordinary (rate) out-link, a duration-preserving TimedLink to tc2 (n2 rows)
    in the same group, a TimedLink inflow from tc0 (same group, n rows) and plain inflows from source compartments.
    """
    n2 = n if n2 is None else n2
    in_rows = list(timed_in_rows) if timed_in_rows is not None else ([n] if with_timed_in else [])  # keyring sizes of the TimedLink sources

    def body(env):
        import atomica.model as am

        pop = StubPop()
        dt = env.real("dt", DT_LO, DT_HI)
        dur = _par(am, pop, "dur", "duration", 1.0)
        tc = pop.add_comp(am.TimedCompartment(pop, "tc", dur))
        dflush = pop.add_comp(am.Compartment(pop, "dflush"))
        tc.connect(dflush, dur)  # flush link (parameter is detached by the real connect)
        rows = lambda nm, k: [env.real("%s_r%d" % (nm, r), 0, VMAX) for r in range(k)]
        T = 2

        def set_rows(c, vals):
            c._vals = arr(env, (len(vals), T))
            for r, v in enumerate(vals):
                c._vals[r, 0] = v

        tcr = rows("tc", n)
        set_rows(tc, tcr)
        do = None
        if with_ordinary_out:
            do = pop.add_comp(am.Compartment(pop, "do"))
            po = _par(am, pop, "po", "rate", env.real("To", TS_LO, TS_HI))
            vo = env.real("vo", -VMAX, VMAX)
            tc.connect(do, po)
        tc2 = None
        if with_timed_out:
            tc2 = pop.add_comp(am.TimedCompartment(pop, "tc2", dur))
            d2 = pop.add_comp(am.Compartment(pop, "d2"))
            tc2.connect(d2, dur)
            tc2r = rows("tc2", n2)
            set_rows(tc2, tc2r)
            pt = _par(am, pop, "pt", "probability", env.real("Tt", TS_LO, TS_HI))
            vt = env.real("vt", -VMAX, VMAX)
            tc.connect(tc2, pt)
        pis = []
        for k0, nk in enumerate(in_rows):
            sfx = "" if k0 == 0 else "_%d" % k0
            tc0 = pop.add_comp(am.TimedCompartment(pop, "tc0" + sfx, dur))
            d0 = pop.add_comp(am.Compartment(pop, "d0" + sfx))
            tc0.connect(d0, dur)
            set_rows(tc0, rows("tc0" + sfx, nk))
            pi = _par(am, pop, "pi" + sfx, "probability", env.real("Ti" + sfx, TS_LO, TS_HI))
            pis.append((pi, env.real("vi" + sfx, 0, VMAX)))
            tc0.connect(tc, pi)
        srcs = []
        for j in range(n_plain_in):
            s = pop.add_comp(am.SourceCompartment(pop, "s%d" % j))
            q = _par(am, pop, "q%d" % j, "number", 1.0)
            s.connect(tc, q)
            srcs.append((s, q, env.real("n%d" % j, 0, VMAX)))
        tvec = micro.alloc(env, am, [pop], T)
        for c in pop.comps:
            if isinstance(c, am.Compartment) and not isinstance(c, (am.TimedCompartment, am.SourceCompartment, am.JunctionCompartment)):
                c.vals[0] = 0.0
        dur.vals[:] = 1.0
        if with_ordinary_out:
            po.vals[0] = vo
        if with_timed_out:
            pt.vals[0] = vt
        for pi, vi in pis:
            pi.vals[0] = vi
        for s, q, v in srcs:
            q.vals[0] = v
        m = micro.new_model(am, [pop], dt, tvec)
        # arbitrary left-overs of the previous step in every per-step cache
        for c in pop.comps:
            if isinstance(c, am.TimedCompartment):
                c._cached_outflow = env.array([env.real("stale_%s_cached_%d" % (c.name, r), 0, VMAX) for r in range(c._vals.shape[0])])
            elif not isinstance(c, (am.SourceCompartment, am.JunctionCompartment)):
                c._cached_outflow = env.real("stale_%s_cached" % c.name, 0, VMAX)
        for k, l in enumerate(pop.links):
            l._cache = env.real("stale_link_cache_%d" % k, 0, VMAX)
        with env.installed(micro.patches(am)), micro.merge_points(am, env.symbolic):
            env.heap(micro.heap_of([pop]))
            m.update_links()
            pre_cached = [tc._cached_outflow[r] for r in range(n)]
            m._t_index = 1
            m.update_comps()

        flush = tc.flush_link
        fo = env.smax(vo, 0.0) * dt / po.timescale if with_ordinary_out else 0.0
        ft = env.smax(vt, 0.0) * dt / pt.timescale if with_timed_out else 0.0
        # per-row outflow requests: ordinary acts on all rows, timed link on rows 1..n-1
        plain_in = 0.0
        for s, q, v in srcs:
            plain_in = plain_in + s.outlinks[0].vals[0]
        tl_out = [l for l in tc.outlinks if isinstance(l, am.TimedLink)]
        ol_out = [l for l in tc.outlinks if not isinstance(l, am.TimedLink) and l is not flush]
        tl_in = [l for l in tc.inlinks if isinstance(l, am.TimedLink)]

        def row_out(r):
            o = 0.0
            for l in tl_out:
                o = o + l._vals[r, 0]
            return o

        ord_total = 0.0
        for l in ol_out:
            ord_total = ord_total + l.vals[0]
        # ordinary link per-row share is not recorded separately: spec value per row
        ord_row = []
        for r in range(n):
            tot_req = fo + (ft if r > 0 else 0.0)
            sc_ = env.smax(tot_req, 1.0)
            ord_row.append(tcr[r] * fo / sc_)

        if "C05" in want:
            for l in tl_out:
                env.claim("C05_no_duration_preserving_move_from_final_bin", env.eq(l._vals[0, 0], 0.0, 0), key="timed_row0_zero")
            # flush = what is left in row 0
            env.claim("C05_flush_is_rest_of_row0", env.eq(flush.vals[0], tcr[0] - ord_row[0]), key="flush_value")
            env.claim("C05_flush_nonneg", env.ge(flush.vals[0], 0.0, 0), key="flush_nonneg")
            if with_ordinary_out:
                tot = 0.0
                for r in range(n):
                    tot = tot + ord_row[r]
                env.claim("C05_ordinary_out_sums_rows", env.eq(ord_total, tot), key="ordinary_rows")
            # shift lemma
            for r in range(n - 1):
                tin = 0.0
                for l in tl_in:
                    if l._vals.shape[0] > r + 1:
                        tin = tin + l._vals[r + 1, 0]
                    if r + 1 == n - 1:
                        # a source with a longer keyring: its surplus rows enter the newest row of this compartment
                        for rr in range(n, l._vals.shape[0]):
                            tin = tin + l._vals[rr, 0]
                env.claim("C05_shift_row_%d" % r, env.eq(tc._vals[r, 1], tcr[r + 1] - row_out(r + 1) - ord_row[r + 1] + tin), key="shift")
            if n > 1:
                env.claim("C05_new_arrivals_in_last_row", env.eq(tc._vals[n - 1, 1], plain_in), key="last_row")
            else:
                tin = 0.0
                for l in tl_in:
                    for rr in range(l._vals.shape[0]):
                        tin = tin + l._vals[rr, 0]
                # single row: flushed entirely, then holds the arrivals of this step only
                env.claim("C05_single_row_empties_every_step", env.eq(tc._vals[0, 1], plain_in + tin), key="single_row")
            # duration-preserving move keeps the row index; mismatched lengths are resolved by the destination
            if with_timed_out:
                l = tl_out[0]
                for r in range(n2 - 1):
                    # row r of tc2 at t+1 is row r+1 after adding the inflow
                    src_row = r + 1
                    came = l._vals[src_row, 0] if src_row < n else 0.0
                    if n2 < n and src_row == n2 - 1:
                        pass
                    own_flush = tc2.flush_link.vals[0] if src_row == 0 else 0.0
                    if src_row < n2:
                        base = tc2r[src_row]
                        if n > n2 and src_row == n2 - 1:
                            extra = 0.0
                            for rr in range(n2, n):
                                extra = extra + l._vals[rr, 0]
                            came = came + extra
                        env.claim("C05_same_group_move_keeps_elapsed_time_row_%d" % r, env.eq(tc2._vals[r, 1], base + came), key="preserve_row")
                if n2 > 1:
                    env.claim("C05_tc2_last_row_only_new_arrivals", env.eq(tc2._vals[n2 - 1, 1], 0.0, 0), key="tc2_last_row")
        if "C02" in want:
            for r in range(n):
                env.claim("C02_row_%d_nonneg" % r, env.ge(tc._vals[r, 1], 0.0, 0), key="row_nonneg")
                env.claim("C02_row_%d_not_overdrawn" % r, env.le(pre_cached[r], tcr[r]), key="row_not_overdrawn")
                if with_timed_out and with_ordinary_out and r > 0:
                    env.claim("C02_row_%d_common_scale" % r, env.eq(tl_out[0]._vals[r, 0] * fo, ord_row[r] * ft), key="row_common_scale")
            for l in tl_out:
                for r in range(n):
                    env.claim("C02_timedlink_row_%d_nonneg" % r, env.ge(l._vals[r, 0], 0.0, 0), key="flow_nonneg")
            for l in ol_out:
                env.claim("C02_ordinary_flow_nonneg", env.ge(l.vals[0], 0.0, 0), key="flow_nonneg")
        if "C01" in want:
            tot0 = 0.0
            for r in range(n):
                tot0 = tot0 + tcr[r]
            tot1 = 0.0
            for r in range(n):
                tot1 = tot1 + tc._vals[r, 1]
            out_all = flush.vals[0] + ord_total
            for l in tl_out:
                for r in range(n):
                    out_all = out_all + l._vals[r, 0]
            in_all = plain_in
            for l in tl_in:
                for r in range(l._vals.shape[0]):
                    in_all = in_all + l._vals[r, 0]
            env.claim("C01_timed_balance", env.eq(tot1, tot0 - out_all + in_all), key="timed_balance")
            if with_timed_out:
                t20 = 0.0
                for r in range(n2):
                    t20 = t20 + tc2r[r]
                t21 = 0.0
                for r in range(n2):
                    t21 = t21 + tc2._vals[r, 1]
                in2 = 0.0
                for r in range(n):
                    in2 = in2 + tl_out[0]._vals[r, 0]
                env.claim("C01_timed_dest_balance", env.eq(t21, t20 - tc2.flush_link.vals[0] + in2), key="timed_dest_balance")
        if "C03" in want:
            if with_timed_out:
                for r in range(1, n):
                    tot_req = fo + ft
                    env.claim("C03_timed_flow_formula_row_%d" % r, env.eq(tl_out[0]._vals[r, 0] * env.smax(tot_req, 1.0), tcr[r] * ft, 1e-8), key="timed_flow_formula")

    return body


def junction_body(n_out, residual, n_in, want, region="nonneg", chain=False):
    """
    Junction j (plain or residual) fed by n_in ordinary compartments through rate links, n_out proportion out-links
    (+ the residual link).  region: 'nonneg' = all proportions >= 0 (hard obligations), 'anysign' = unconstrained sign.
    chain: the first outflow feeds a second junction j2 with two outflows.
    """

    def body(env):
        import atomica.model as am

        pop = StubPop()
        dt = env.real("dt", DT_LO, DT_HI)
        cls = am.ResidualJunctionCompartment if residual else am.JunctionCompartment
        j = pop.add_comp(cls(pop, "j"))
        ups = []
        for i in range(n_in):
            u = pop.add_comp(am.Compartment(pop, "u%d" % i))
            p = _par(am, pop, "r%d" % i, "probability", 1.0)
            u.connect(j, p)
            ups.append((u, p, env.real("xu%d" % i, 0, VMAX), env.real("vr%d" % i, 0, VMAX)))
        outs = []
        lo = 0 if region == "nonneg" else -10
        for i in range(n_out):
            if chain and i == 0:
                d = pop.add_comp(am.JunctionCompartment(pop, "j2"))
            else:
                d = pop.add_comp(am.Compartment(pop, "d%d" % i))
            p = _par(am, pop, "f%d" % i, "proportion", 1.0)
            j.connect(d, p)
            outs.append((d, p, env.real("p%d" % i, lo, 10)))
        if residual:
            dres = pop.add_comp(am.Compartment(pop, "dres"))
            j.connect(dres, None)
        j2outs = []
        if chain:
            j2 = outs[0][0]
            for i in range(2):
                d = pop.add_comp(am.Compartment(pop, "e%d" % i))
                p = _par(am, pop, "g%d" % i, "proportion", 1.0)
                j2.connect(d, p)
                j2outs.append((d, p, env.real("pg%d" % i, 0, 10)))
        tvec = micro.alloc(env, am, [pop])
        for u, p, xu, vr in ups:
            u.vals[0] = xu
            p.vals[0] = vr
        for d, p, pv in outs + j2outs:
            p.vals[0] = pv
            if not isinstance(d, am.JunctionCompartment):
                d.vals[0] = 0.0
        if residual:
            dres.vals[0] = 0.0
        # effective proportion: a negative outflow parameter moves nobody (C02), the others share as stated
        outs = [(d, p, env.smax(pv, 0.0)) for d, p, pv in outs]
        psum = 0.0
        for d, p, pv in outs:
            psum = psum + pv
        if not residual:
            env.assume(env.b(psum > 0), "domain restriction: a plain junction's (non-negative parts of the) outflow proportions have a positive sum")
        if chain:
            env.assume(env.b(j2outs[0][2] + j2outs[1][2] > 0), "domain restriction (second junction)")
        m = micro.new_model(am, [pop], dt, tvec)
        for c in pop.comps:
            if not isinstance(c, (am.SourceCompartment, am.JunctionCompartment)):
                c._cached_outflow = env.real("stale_%s_cached" % c.name, 0, VMAX)
        for k, l in enumerate(pop.links):
            l._cache = env.real("stale_link_cache_%d" % k, 0, VMAX)
        with env.installed(micro.patches(am)), micro.merge_points(am, env.symbolic):
            env.heap(micro.heap_of([pop]))
            m.update_links()
            m._t_index = 1
            m.update_comps()
        inflow = 0.0
        for l in j.inlinks:
            inflow = inflow + l.vals[0]
        outflow = 0.0
        for l in j.outlinks:
            outflow = outflow + l.vals[0]
        allnonneg = env.all([env.ge(pv, 0.0, 0) for d, p, pv in outs]).exact
        if "C04" in want or "C01" in want:
            env.claim("C04_junction_passes_on_what_it_receives", env.eq(outflow, inflow), key="junction_balance[%s]" % region)
            env.claim("C04_junction_stays_empty", env.eq(j.vals[1], 0.0, 0) & env.eq(j.vals[0], 0.0, 0), key="junction_empty")
        if "C04" in want:
            for i, (d, p, pv) in enumerate(outs):
                l = [l for l in j.outlinks if l.parameter is p][0]
                if residual:
                    env.claim("C04_residual_split_%d" % i, env.eq(l.vals[0] * env.smax(psum, 1.0), inflow * pv), key="residual_split[%s]" % region)
                else:
                    env.claim("C04_split_%d" % i, env.eq(l.vals[0] * psum, inflow * pv), key="split[%s]" % region)
            if residual:
                lr = [l for l in j.outlinks if l.parameter is None][0]
                env.claim("C04_residual_gets_remainder", env.eq(lr.vals[0], inflow * env.smax(1.0 - psum, 0.0)), key="residual_remainder[%s]" % region)
            if chain:
                in2 = 0.0
                for l in j2.inlinks:
                    in2 = in2 + l.vals[0]
                out2 = 0.0
                for l in j2.outlinks:
                    out2 = out2 + l.vals[0]
                env.claim("C04_chain_second_junction_balanced", env.eq(out2, in2), key="chain_balance")
                g = j2outs[0][2] + j2outs[1][2]
                for i, (d, p, pv) in enumerate(j2outs):
                    env.claim("C04_chain_split_%d" % i, env.eq(d.inlinks[0].vals[0] * g, in2 * pv), key="chain_split")
        if "C02" in want:
            for i, l in enumerate(j.outlinks):
                env.claim("C02_junction_flow_nonneg_%d" % i, env.ge(l.vals[0], 0.0, 0), key="junction_flow_nonneg[%s]" % region)
        if "C01" in want:
            for d, p, pv in outs + j2outs:
                if not isinstance(d, am.JunctionCompartment):
                    ind = 0.0
                    for l in d.inlinks:
                        ind = ind + l.vals[0]
                    env.claim("C01_downstream_balance_%s" % d.name, env.eq(d.vals[1], ind), key="downstream_balance[%s]" % region)

    return body


def group_junction_body(n, want):
    """Junction inside a duration group over TWO consecutive steps: tcA (n rows) -> j -> tcB, tcC (same group). At each step and for
    each elapsed-time row what leaves the junction is what entered it in that row, split by the proportions (nothing may be reused
    from the previous step)"""

    def body(env):
        import atomica.model as am

        pop = StubPop()
        dt = env.real("dt", DT_LO, DT_HI)
        dur = _par(am, pop, "dur", "duration", 1.0)
        T = 3
        tcs = {}
        for nm in ("tcA", "tcB", "tcC"):
            tc = pop.add_comp(am.TimedCompartment(pop, nm, dur))
            d = pop.add_comp(am.Compartment(pop, "d" + nm))
            tc.connect(d, dur)
            tcs[nm] = tc
        j = pop.add_comp(am.JunctionCompartment(pop, "j", duration_group="dur"))
        pa = _par(am, pop, "pa", "probability", 1.0)
        q1 = _par(am, pop, "q1", "proportion", 1.0)
        q2 = _par(am, pop, "q2", "proportion", 1.0)
        tcs["tcA"].connect(j, pa)
        j.connect(tcs["tcB"], q1)
        j.connect(tcs["tcC"], q2)
        for nm, tc in tcs.items():
            tc._vals = arr(env, (n, T))
            for r in range(n):
                tc._vals[r, 0] = env.real("%s_r%d" % (nm, r), 0, VMAX)
        for l in j.outlinks:
            l._vals = arr(env, (n, T))  # TimedLinks out of a junction take the keyring size of the group
        tvec = micro.alloc(env, am, [pop], T)
        for c in pop.comps:
            if isinstance(c, am.Compartment) and not isinstance(c, (am.TimedCompartment, am.JunctionCompartment)):
                c.vals[0] = 0.0
        dur.vals[:] = 1.0
        va = [env.real("pa_t%d" % k, 0, VMAX) for k in range(2)]
        v1 = env.real("q1", 0, 1)
        v2 = env.real("q2", 0, 1)
        env.assume(env.b(v1 + v2 > 0), "domain restriction: the proportions of a plain junction have a positive sum")
        for k in range(2):
            pa.vals[k] = va[k]
            q1.vals[k] = v1
            q2.vals[k] = v2
        m = micro.new_model(am, [pop], dt, tvec)
        with env.installed(micro.patches(am)), micro.merge_points(am, env.symbolic):
            env.heap(micro.heap_of([pop]))
            m.update_links()
            m._t_index = 1
            m.update_comps()
            m.update_links()
        lin = j.inlinks[0]
        for ti in range(2):
            for r in range(n):
                inflow = lin._vals[r, ti]
                out = 0.0
                for l in j.outlinks:
                    out = out + l._vals[r, ti]
                env.claim("junction_row_out_equals_in|t%d|r%d" % (ti, r), env.eq(out, inflow), key="group_junction_balance")
                env.claim("junction_row_split|t%d|r%d" % (ti, r), env.eq(j.outlinks[0]._vals[r, ti] * (v1 + v2), inflow * v1), key="group_junction_split")

    return body


def flush_body(n_out, residual, want, chain=False, timed_dest=False):
    """Initial flush: junction holds J >= 0 people at index 0; downstream compartments hold their own initial values"""

    def body(env):
        import atomica.model as am

        pop = StubPop()
        cls = am.ResidualJunctionCompartment if residual else am.JunctionCompartment
        j = pop.add_comp(cls(pop, "j"))
        J = env.real("J", 0, VMAX)
        outs = []
        dur = None
        for i in range(n_out):
            if chain and i == 0:
                d = pop.add_comp(am.JunctionCompartment(pop, "j2"))
            elif timed_dest and i == n_out - 1:
                dur = _par(am, pop, "dur", "duration", 1.0)
                d = pop.add_comp(am.TimedCompartment(pop, "tcd", dur))
                dfl = pop.add_comp(am.Compartment(pop, "dfl"))
                d.connect(dfl, dur)
            else:
                d = pop.add_comp(am.Compartment(pop, "d%d" % i))
            p = _par(am, pop, "f%d" % i, "proportion", 1.0)
            j.connect(d, p)
            outs.append((d, p, env.real("p%d" % i, 0, 10)))
        if residual:
            dres = pop.add_comp(am.Compartment(pop, "dres"))
            j.connect(dres, None)
            yres = env.real("yres", 0, VMAX)
        j2outs = []
        if chain:
            j2 = outs[0][0]
            for i in range(2):
                d = pop.add_comp(am.Compartment(pop, "e%d" % i))
                p = _par(am, pop, "g%d" % i, "proportion", 1.0)
                j2.connect(d, p)
                j2outs.append((d, p, env.real("pg%d" % i, 0, 10)))
            J2 = env.real("J2", 0, VMAX)
        nrows = 3
        if timed_dest:
            tcd = outs[-1][0]
            tcd._vals = arr(env, (nrows, 2))
        tvec = micro.alloc(env, am, [pop])
        if dur is not None:
            dur.vals[:] = 1.0
        j.vals[0] = J
        init = {}
        for d, p, pv in outs + j2outs:
            p.vals[0] = pv
            if isinstance(d, am.JunctionCompartment):
                d.vals[0] = J2
            elif isinstance(d, am.TimedCompartment):
                y = env.real("y_%s" % d.name, 0, VMAX)
                with env.installed(micro.patches(am)):
                    d[0] = y
                init[d.name] = y
            else:
                y = env.real("y_%s" % d.name, 0, VMAX)
                d.vals[0] = y
                init[d.name] = y
        if timed_dest:
            for c in pop.comps:
                if c.name == "dfl":
                    c.vals[0] = 0.0
        if residual:
            dres.vals[0] = yres
        psum = 0.0
        for d, p, pv in outs:
            psum = psum + pv
        if not residual:
            env.assume(env.b(psum > 0), "domain restriction: positive proportion sum")
        if chain:
            env.assume(env.b(j2outs[0][2] + j2outs[1][2] > 0), "domain restriction (second junction)")
        m = micro.new_model(am, [pop], 1.0, tvec)
        with env.installed(micro.patches(am)), micro.merge_points(am, env.symbolic):
            env.heap(micro.heap_of([pop]))
            m.flush_junctions()
            after = {}
            for d, p, pv in outs + j2outs:
                if isinstance(d, am.TimedCompartment):
                    after[d.name] = d[0]
                    rows_after = [d._vals[r, 0] for r in range(nrows)]
                elif not isinstance(d, am.JunctionCompartment):
                    after[d.name] = d.vals[0]
        if "C04" in want:
            env.claim("C04_flush_empties_junction", env.eq(j.vals[0], 0.0, 0), key="flush_empty")
            if chain:
                env.claim("C04_flush_empties_second_junction", env.eq(j2.vals[0], 0.0, 0), key="flush_empty")
            denom = env.smax(psum, 1.0) if residual else psum
            total_before = J + (J2 if chain else 0.0)
            total_after = 0.0
            for nm, v in init.items():
                total_before = total_before + v
            for nm, v in after.items():
                total_after = total_after + v
            if residual:
                total_before = total_before + yres
                total_after = total_after + dres.vals[0]
            env.claim("C04_flush_preserves_total", env.eq(total_after, total_before), key="flush_total")
            for i, (d, p, pv) in enumerate(outs):
                if isinstance(d, am.JunctionCompartment):
                    continue
                env.claim("C04_flush_share_%d" % i, env.eq((after[d.name] - init[d.name]) * denom, J * pv), key="flush_share")
            if residual:
                env.claim("C04_flush_residual_share", env.eq(dres.vals[0] - yres, J * env.smax(1.0 - psum, 0.0)), key="flush_residual")
            if chain:
                g = j2outs[0][2] + j2outs[1][2]
                through = J2 + J * outs[0][2] / denom
                for i, (d, p, pv) in enumerate(j2outs):
                    env.claim("C04_flush_chain_share_%d" % i, env.eq((after[d.name] - init[d.name]) * g, through * pv), key="flush_chain")
            if timed_dest:
                # people placed in a timed compartment by the flush are spread uniformly like the other initial occupants
                for r in range(nrows):
                    env.claim("C04_flush_into_timed_uniform_row_%d" % r, env.eq(rows_after[r] * nrows, after["tcd"]), key="flush_timed_uniform")

    return body


# --------------------------------------------------------------------------------------
# group lists
# --------------------------------------------------------------------------------------

STUBS = [
    "numpy/math/sciris in atomica.model -> vsym shims (object arrays; If-term divide-where/minimum/maximum/clip)",
    "micro-graphs are wired from the real classes through Compartment.connect/Link.create; Model is instantiated without __init__ (only the attributes the integration methods read)",
    "merge points: Compartment/Timed/Junction/Source/Sink.resolve_outflows|update|balance|initial_flush, Parameter.update|constrain, Characteristic.update; Model.update_links per-parameter loop outlined from current source",
]


def _funcs():
    import atomica.model as am

    return [
        am.Model.update_links,
        am.Model.update_comps,
        am.Model.flush_junctions,
        am.Compartment.resolve_outflows,
        am.Compartment.update,
        am.SourceCompartment.resolve_outflows,
        am.SinkCompartment.update,
        am.TimedCompartment.resolve_outflows,
        am.TimedCompartment.update,
        am.TimedCompartment.connect,
        am.TimedCompartment.__setitem__,
        am.TimedCompartment.__getitem__,
        am.TimedLink.__getitem__,
        am.JunctionCompartment.balance,
        am.JunctionCompartment.initial_flush,
        am.JunctionCompartment.connect,
        am.ResidualJunctionCompartment.balance,
        am.ResidualJunctionCompartment.initial_flush,
        am.Parameter.source_popsize,
        am.Link.create,
    ]


def _mk(name, body, bounds, timeout_ms=120000):
    from vsym.env import run_body

    def g(tier, seed):
        import logging

        logging.disable(logging.WARNING)
        return run_body(body, name, tier, seed, functions=_funcs(), bounds=dict(bounds, values="|v|<=1e9, dt in [1/365,5], timescale in [1e-3,1e3]"), stubs=STUBS, timeout_ms=timeout_ms)

    g.__name__ = name
    return g


def kernel_specs(prop, tier):
    """(name, factory, kwargs) for the kernels relevant to a property"""
    q = tier == "quick"
    specs = []
    if prop in ("C01", "C02", "C03"):
        stars = [
            (["probability"], 1, {}),
            (["rate"], 0, {}),
            (["duration"], 1, {}),
            (["number"], 1, {}),
            (["probability", "duration"], 1, {}),
            (["number", "rate"], 0, {}),
            (["duration", "number"], 0, dict(sink_dest=True)),
            (["number", "rate"], 0, dict(shared_number=True)),
            (["probability", "number"], 1, dict(two_pars_one_pair=True)),
            (["probability", "duration", "number"], 2, {}),
        ]
        if not q:
            stars += [
                (["rate", "rate", "rate"], 1, {}),
                (["duration", "duration", "probability"], 0, {}),
                (["number", "number", "probability"], 1, {}),
                (["number", "duration", "rate"], 1, dict(shared_number=True)),
                (["probability", "duration", "number", "rate"], 1, {}),
                (["probability", "probability", "duration", "number"], 3, dict(two_pars_one_pair=True)),
            ]
        for units, n_in, kw in stars:
            nm = "star[%s;in=%d%s]" % (",".join(u[:4] for u in units), n_in, "".join(";" + k for k in kw))
            specs.append((nm, star_body, dict(units=units, n_in=n_in, **kw), dict(kind="ordinary compartment star", out_units=units, inflows=n_in, **kw)))
    if prop in ("C01", "C02", "C03", "C05"):
        timed = [(1, {}), (2, {}), (3, {}), (2, dict(n2=3)), (3, dict(n2=2)), (2, dict(with_ordinary_out=False)), (3, dict(with_timed_in=False, n_plain_in=2)), (2, dict(with_timed_out=False)), (2, dict(timed_in_rows=(3, 4, 2), with_timed_out=False)), (1, dict(timed_in_rows=(2, 3), with_timed_out=False))]
        if not q:
            timed += [(4, {}), (4, dict(n2=2)), (2, dict(n2=4)), (1, dict(n2=3)), (3, dict(n2=1)), (4, dict(with_ordinary_out=False)), (5, dict(with_timed_in=False))]
        for n, kw in timed:
            nm = "timed[rows=%d%s]" % (n, "".join(";%s=%s" % (k, v) for k, v in kw.items()))
            specs.append((nm, timed_body, dict(n=n, **kw), dict(kind="timed compartment star", rows=n, **kw)))
    if prop in ("C01", "C02", "C04"):
        junc = [(2, False, 2, {}), (3, False, 1, {}), (2, True, 1, {}), (1, True, 2, {}), (2, False, 1, dict(chain=True)), (2, True, 1, dict(chain=True))]
        if not q:
            junc += [(4, False, 2, {}), (3, True, 2, {}), (3, False, 1, dict(chain=True))]
        for n_out, res, n_in, kw in junc:
            nm = "junction[out=%d;%s;in=%d%s]" % (n_out, "residual" if res else "plain", n_in, "".join(";" + k for k in kw))
            specs.append((nm, junction_body, dict(n_out=n_out, residual=res, n_in=n_in, **kw), dict(kind="junction", outflows=n_out, residual=res, inflows=n_in, **kw)))
        # region split for the sign of the proportions (see known findings / DESIGN.md)
        for n_out, res in [(2, False), (2, True)]:
            nm = "junction[out=%d;%s;in=1;anysign]" % (n_out, "residual" if res else "plain")
            specs.append((nm, junction_body, dict(n_out=n_out, residual=res, n_in=1, region="anysign"), dict(kind="junction, proportions of any sign", outflows=n_out, residual=res)))
    if prop in ("C04", "C05", "C01"):
        for n in ((3,) if q else (3, 4)):  # with two rows only one row can carry a duration-preserving flow (nothing leaves from the final bin)
            specs.append(("group_junction[rows=%d;two steps]" % n, group_junction_body, dict(n=n), dict(kind="junction of a duration group, two consecutive steps", rows=n)))
    if prop in ("C04", "C01"):
        fl = [(2, False, {}), (3, False, dict(chain=True)), (2, True, {}), (2, True, dict(chain=True)), (2, False, dict(timed_dest=True))]
        if not q:
            fl += [(4, False, {}), (3, True, dict(chain=True)), (3, True, dict(timed_dest=True))]
        for n_out, res, kw in fl:
            nm = "flush[out=%d;%s%s]" % (n_out, "residual" if res else "plain", "".join(";" + k for k in kw))
            specs.append((nm, flush_body, dict(n_out=n_out, residual=res, **kw), dict(kind="initial junction flush", outflows=n_out, residual=res, **kw)))
    return specs


def kernel_groups(prop, tier):
    gs = []
    for nm, fac, kw, bounds in kernel_specs(prop, tier):
        gs.append(_mk(nm, fac(want={prop}, **kw), bounds))
    return gs


def kernel_replay(prop, rec):
    from vsym.env import replay_body

    for nm, fac, kw, bounds in kernel_specs(prop, "thorough"):
        if nm == rec["replay"]["group"]:
            return replay_body(fac(want={prop}, **kw), rec["model"], rec["replay"]["claim"])
    return None
