"""
C12 -- program outcomes are a coverage-weighted average of baseline and combination outcomes.

Real code executed symbolically: atomica.programs.Covout.__init__, update_outcomes, compute_impact_interaction,
get_outcome (and ProgramSet.get_outcomes in the progset group).
"""

import itertools
from vsym.env import run_body, replay_body
from vsym.shim import ShimNP, ShimSC

TECHNIQUE = "symbolic execution of the real Covout methods on z3-real proxies (numpy shimmed), obligations discharged by z3 (NRA); counterexamples replayed on the unpatched code"
EXPLANATION = (
    "Each group runs the real Covout.__init__/update_outcomes/compute_impact_interaction/get_outcome on symbolic baseline, program outcomes, "
    "explicit interaction outcomes and a symbolic coverage vector in [0,1]^n for a fixed (n, coverage interaction); every ordering of |delta| "
    "(the sort in update_outcomes), of coverages (argsort in nested) and both sides of sum(cov)>1 (additive) are explored as paths. Weights "
    "are extracted by re-running the real get_outcome with indicator combination outcomes; the solver must refute: a negative weight, "
    "weights summing above 1, a marginal different from the program's coverage, non-linearity in the combination outcomes, value outside "
    "[min,max] of baseline and outcomes, value != baseline at zero coverage, value != baseline + c*delta for a single covered program, "
    "non-monotonicity when all deltas share a sign, and a combination outcome that is neither the explicit value nor the farthest member. "
    "Bounds: n<=3 (quick) / n<=4, random and nested n<=5 (thorough); |values| <= 1e6; real arithmetic (tolerance 1e-9 relative). Outside: n>5, float rounding."
)
ASSUMPTIONS = ["coverage vector in [0,1]^n, |baseline|,|outcomes| <= 1e6", "floats modelled as reals; tolerance 1e-9 relative separates rounding from violations"]
GROUP_TIMEOUT = {"quick": 1500, "thorough": 9000}


def _patches():
    import atomica.programs as ap

    return [(ap.__dict__, "np", ShimNP()), (ap.__dict__, "sc", ShimSC(ap.sc))]


def _funcs():
    import atomica.programs as ap

    return [ap.Covout.__init__, ap.Covout.update_outcomes, ap.Covout.compute_impact_interaction, ap.Covout.get_outcome]


def weights_body(n, kind, explicit):
    """explicit: tuple of combos (tuples of program indices) that get an explicit symbolic interaction outcome"""

    def body(env):
        import atomica.programs as ap

        names = ["P%d" % i for i in range(n)]
        base = env.real("base", -1e6, 1e6)
        outs = [env.real("out%d" % i, -1e6, 1e6) for i in range(n)]
        cov = [env.real("c%d" % i, 0, 1) for i in range(n)]
        inter = {frozenset(names[i] for i in combo): env.real("x_" + "_".join(str(i) for i in combo), -1e6, 1e6) for combo in explicit}
        with env.installed(_patches()):
            cv = ap.Covout("par", "pop", dict(zip(names, outs)), cov_interaction=kind, baseline=base)
            if inter:
                cv._interactions = {k: v - base for k, v in inter.items()}
                cv.update_outcomes()
            order = list(cv._cached_progs.keys())  # sorted by |delta| (path-dependent)
            # documented ranking: the most effective program (largest |outcome - baseline|) comes first
            for i in range(n - 1):
                env.claim("ranked_by_effectiveness_%d" % i, env.ge(env.sabs(outs[names.index(order[i])] - base), env.sabs(outs[names.index(order[i + 1])] - base)), key="ranking")
            pc = {nm: env.array([c]) for nm, c in zip(names, cov)}
            val = cv.get_outcome(pc)
            combos = [[int(y) for y in row] for row in cv.combinations]
            outcomes = [cv._combination_outcomes[k] for k in range(len(combos))]
            deltas = [cv._deltas[i] for i in range(n)]

            # ---- combination outcomes: explicit value, else the member farthest from baseline
            for k, row in enumerate(combos):
                members = [i for i, b in enumerate(row) if b]
                if not members:
                    env.claim("combo%d_empty_is_zero" % k, env.eq(outcomes[k], 0.0))
                    continue
                fs = frozenset(order[i] for i in members)
                if fs in inter:
                    env.claim("combo%d_explicit" % k, env.eq(outcomes[k] + base, inter[fs]), key="combo_explicit")
                else:
                    far = env.all([env.ge(env.sabs(outcomes[k]), env.sabs(deltas[i])) for i in members])
                    mem = None
                    for i in members:
                        c = env.eq(outcomes[k], deltas[i])
                        mem = c if mem is None else (mem | c)
                    env.claim("combo%d_farthest_member" % k, far & mem, key="combo_farthest")

            # ---- weights by indicator outcomes (the real get_outcome is linear in the cached outcomes)
            saved = (cv.baseline, cv._combination_outcomes, cv._deltas)
            w = [None] * len(combos)
            for k, row in enumerate(combos):
                if k == 0:
                    continue
                ind = env.array([1.0 if j == k else 0.0 for j in range(len(combos))])
                members = [i for i, b in enumerate(row) if b]
                dind = env.array([1.0 if (len(members) == 1 and members[0] == i) else 0.0 for i in range(n)])
                cv.baseline, cv._combination_outcomes, cv._deltas = 0.0, ind, dind
                pc_sorted = {nm: env.array([c]) for nm, c in zip(names, cov)}
                w[k] = cv.get_outcome(pc_sorted)
            cv.baseline, cv._combination_outcomes, cv._deltas = saved

        tot = 0.0
        for k in range(1, len(combos)):
            env.claim("weight%d_nonneg" % k, env.ge(w[k], 0.0), key="weight_nonneg")
            tot = tot + w[k]
        env.claim("weights_sum_le_1", env.le(tot, 1.0), key="weights_sum")
        for i in range(n):
            nm = order[i]
            ci = cov[names.index(nm)]
            marg = 0.0
            for k, row in enumerate(combos):
                if k and row[i]:
                    marg = marg + w[k]
            env.claim("marginal_%d" % i, env.eq(marg, ci), key="marginal")
        lin = base
        for k in range(1, len(combos)):
            lin = lin + w[k] * outcomes[k]
        env.claim("value_is_weighted_average", env.eq(val, lin), key="linear")
        # range: consequence of the claims above; decided on the abstraction where each weight is a fresh variable carrying
        # only what was just proved about it (w_k >= 0, sum <= 1), the value is the proved weighted average, and lo/hi are
        # fresh variables bounded by baseline and every outcome. The product lemmas (non-negative x non-negative) are proved
        # one by one and then assumed, so that the final query is linear over the monomials.
        nn = lambda v: env.ge(v, 0.0, 0)
        wc = [None] + [env.cut(w[k], "w%d" % k, [nn], inject=False) for k in range(1, len(combos))]
        oc = [None] + [env.cut(outcomes[k], "o%d" % k, inject=False) for k in range(1, len(combos))]
        lo = env.cut(None, "lo", [lambda v: env.le(v, base, 0)] + [(lambda v, k=k: env.le(v, base + oc[k], 0)) for k in range(1, len(combos))]) if env.symbolic else min([base] + [base + outcomes[k] for k in range(1, len(combos))])
        hi = env.cut(None, "hi", [lambda v: env.ge(v, base, 0)] + [(lambda v, k=k: env.ge(v, base + oc[k], 0)) for k in range(1, len(combos))]) if env.symbolic else max([base] + [base + outcomes[k] for k in range(1, len(combos))])
        totc = 0.0
        linc = base
        for k in range(1, len(combos)):
            totc = totc + wc[k]
            linc = linc + wc[k] * oc[k]
        env.assume(env.le(totc, 1.0, 0), "cut: weights sum <= 1 (claim weights_sum_le_1)")
        lemmas = []
        for k in range(1, len(combos)):
            lemmas.append(("lemma_lo_%d" % k, env.ge(wc[k] * (base + oc[k] - lo), 0.0, 0)))
            lemmas.append(("lemma_hi_%d" % k, env.ge(wc[k] * (hi - base - oc[k]), 0.0, 0)))
        # (1 - sum w)*(base - lo) >= 0 written as a comparison of the two products, so that the float replay compares quantities of
        # the size of the outcomes (a weight sum of 1 + 1ulp otherwise gives -1e-10 against an absolute 0)
        lemmas.append(("lemma_lo_rest", env.ge(base - lo, totc * (base - lo), 0)))
        lemmas.append(("lemma_hi_rest", env.ge(hi - base, totc * (hi - base), 0)))
        for nm, c in lemmas:
            env.claim(nm, c, key="range_lemma")
        if env.symbolic:
            # monomial abstraction: every product w_k*x is a fresh variable; the proved lemmas, expanded, are linear facts over them
            mo = [None] + [env.cut(None, "m_wo%d" % k) for k in range(1, len(combos))]
            ml = [None] + [env.cut(None, "m_wlo%d" % k) for k in range(1, len(combos))]
            mh = [None] + [env.cut(None, "m_whi%d" % k) for k in range(1, len(combos))]
            mb = [None] + [env.cut(None, "m_wb%d" % k) for k in range(1, len(combos))]
            sum_o = sum_l = sum_h = sum_b = 0.0
            for k in range(1, len(combos)):
                env.assume(env.ge(mb[k] + mo[k] - ml[k], 0.0, 0), "lemma_lo_%d expanded over monomials" % k)
                env.assume(env.ge(mh[k] - mb[k] - mo[k], 0.0, 0), "lemma_hi_%d expanded over monomials" % k)
                sum_o, sum_l, sum_h, sum_b = sum_o + mo[k], sum_l + ml[k], sum_h + mh[k], sum_b + mb[k]
            env.assume(env.ge(base - lo - sum_b + sum_l, 0.0, 0), "lemma_lo_rest expanded")
            env.assume(env.ge(hi - base - sum_h + sum_b, 0.0, 0), "lemma_hi_rest expanded")
            env.claim("value_ge_min", env.ge(base + sum_o, lo), key="range")
            env.claim("value_le_max", env.le(base + sum_o, hi), key="range")
        else:
            env.claim("value_ge_min", env.ge(val, lo), key="range")
            env.claim("value_le_max", env.le(val, hi), key="range")

    return body


def special_body(n, kind):
    """zero coverage, single covered program, monotonicity"""

    def body(env):
        import atomica.programs as ap

        names = ["P%d" % i for i in range(n)]
        base = env.real("base", -1e6, 1e6)
        outs = [env.real("out%d" % i, -1e6, 1e6) for i in range(n)]
        c1 = [env.real("c%d" % i, 0, 1) for i in range(n)]
        c2 = [env.real("d%d" % i, 0, 1) for i in range(n)]
        with env.installed(_patches()):
            cv = ap.Covout("par", "pop", dict(zip(names, outs)), cov_interaction=kind, baseline=base)
            v0 = cv.get_outcome({nm: env.array([0.0]) for nm in names})
            env.claim("zero_coverage_is_baseline", env.eq(v0, base), key="zero")
            for i in range(n):
                vi = cv.get_outcome({nm: env.array([c1[i] if j == i else 0.0]) for j, nm in enumerate(names)})
                env.claim("single_program_%d" % i, env.eq(vi, base + c1[i] * (outs[i] - base)), key="single")
            # monotone: all deltas >= 0 (<= 0) and one coverage raised => value does not decrease (increase).
            # Raising one coordinate at a time reaches every c <= c' componentwise, so this implies the general statement.
            va = cv.get_outcome({nm: env.array([c]) for nm, c in zip(names, c1)})
            vbs = []
            for i in range(n):
                vbs.append(cv.get_outcome({nm: env.array([c2[i] if j == i else c]) for j, (nm, c) in enumerate(zip(names, c1))}))
        pos = env.all([env.ge(o, base, 0) for o in outs])
        neg = env.all([env.le(o, base, 0) for o in outs])
        for i in range(n):
            up = env.le(c1[i], c2[i], 0)
            env.claim("monotone_up_%d" % i, env.le(va, vbs[i]), under=(up & pos).exact, key="monotone")
            env.claim("monotone_down_%d" % i, env.ge(va, vbs[i]), under=(up & neg).exact, key="monotone")

    return body


def additive_reference_body(n):
    """The documented additive rule (docs/general/programs/Programs.rst): most effective programs first until 100% is reached,
    the remaining coverage spread at random; written independently over the symbolic numbers"""

    def body(env):
        import atomica.programs as ap

        names = ["P%d" % i for i in range(n)]
        base = env.real("base", -1e3, 1e3)
        outs = [env.real("out%d" % i, -1e3, 1e3) for i in range(n)]
        cov = [env.real("c%d" % i, 0, 1) for i in range(n)]
        # strict ranking of effectiveness (ties leave the documented order open)
        for i in range(n):
            for j in range(i + 1, n):
                env.assume(env.b(env.sabs(outs[i] - base) != env.sabs(outs[j] - base)), "no ties in effectiveness")
        with env.installed(_patches()):
            cv = ap.Covout("par", "pop", dict(zip(names, outs)), cov_interaction="additive", baseline=base)
            got = cv.get_outcome({nm: env.array([c]) for nm, c in zip(names, cov)})
        # reference: order by |delta| descending (decided per path, consistent with the real sort)
        idx = list(range(n))
        for a in range(1, n):
            b = a
            while b > 0 and bool(env.b(env.sabs(outs[idx[b - 1]] - base) < env.sabs(outs[idx[b]] - base))):
                idx[b - 1], idx[b] = idx[b], idx[b - 1]
                b -= 1
        c = [cov[i] for i in idx]
        d = [outs[i] - base for i in idx]
        tot = 0.0
        for x in c:
            tot = tot + x
        if bool(env.b(tot > 1)):
            add, rp = [], []
            used = 0.0
            for i in range(n):
                a_i = env.smin(c[i], env.smax(1.0 - used, 0.0))
                used = used + c[i]
                add.append(a_i)
                rnd = c[i] - a_i
                rem = 1.0 - a_i
                if env.symbolic:
                    from vsym.core import where

                    rp.append(where(rem != 0, rnd / rem, 0.0))
                else:
                    rp.append(rnd / rem if rem != 0 else 0.0)
            ref = base
            for mask in range(1, 2**n):
                S = [i for i in range(n) if mask >> i & 1]
                best = d[S[0]]  # d is sorted by magnitude: the first member is the most effective one
                w = 0.0
                for i in S:
                    t = add[i]
                    for j in range(n):
                        if j == i:
                            continue
                        t = t * (rp[j] if j in S else (1.0 - rp[j]))
                    w = w + t
                ref = ref + w * best
        else:
            ref = base
            for i in range(n):
                ref = ref + c[i] * d[i]
        env.claim("additive_value_follows_documented_rule", env.eq(got, ref), key="additive_reference")

    return body


def progset_body():
    """ProgramSet.get_outcomes on a library program set: every covout's value is inside [min,max] of baseline and outcomes"""

    def body(env):
        import atomica as at
        import atomica.programs as ap

        P = _demo()
        ps = P.progsets[0]
        cov = {nm: env.real("c_%d" % i, 0, 1) for i, nm in enumerate(ps.programs.keys())}
        with env.installed(_patches()):
            res = ps.get_outcomes({nm: env.array([c]) for nm, c in cov.items()})
        for (par, pop), val in res.items():
            co = ps.covouts[(par, pop)]
            vals = [co.baseline] + [co.baseline + float(x) for x in co._combination_outcomes]
            env.claim("range_%s_%s" % (par, pop), env.ge(val, min(vals)) & env.le(val, max(vals)), key="progset_range")

    return body


_DEMO = {}


def _demo():
    if "p" not in _DEMO:
        import atomica as at

        _DEMO["p"] = at.demo("tb", do_run=False)
    return _DEMO["p"]


def _mk(name, body, bounds, timeout_ms=120000, max_paths=60000):
    def g(tier, seed):
        return run_body(body, name, tier, seed, functions=_funcs(), bounds=bounds, stubs=["numpy -> vsym.shim.ShimNP (object arrays, If-term minimum/maximum/divide-where, argsort/argmax by comparison forks)"], timeout_ms=timeout_ms, max_paths=max_paths)

    g.__name__ = name
    return g


def groups(tier):
    gs = []
    kinds = ["additive", "random", "nested"]
    import os

    # weights[n=5,nested] (14400 paths, 2.0e6 obligations, all unsat) takes about 2 h on one core: only with C12_DEEP=1
    nmax = {"additive": 3, "random": 3, "nested": 3} if tier == "quick" else {"additive": 4, "random": 5, "nested": 5 if os.environ.get("C12_DEEP") else 4}
    for kind in kinds:
        for n in range(1, nmax[kind] + 1):
            gs.append(_mk("weights[n=%d,%s]" % (n, kind), weights_body(n, kind, ()), dict(n=n, interaction=kind, explicit=[])))
        # explicit interaction outcomes for subsets of combinations
        gs.append(_mk("weights[n=2,%s,explicit=01]" % kind, weights_body(2, kind, ((0, 1),)), dict(n=2, interaction=kind, explicit=[[0, 1]])))
        gs.append(_mk("weights[n=3,%s,explicit=01+012]" % kind, weights_body(3, kind, ((0, 1), (0, 1, 2))), dict(n=3, interaction=kind, explicit=[[0, 1], [0, 1, 2]])))
        if kind == "additive":
            for n in ((2,) if tier == "quick" else (2, 3)):
                gs.append(_mk("reference[n=%d,additive]" % n, additive_reference_body(n), dict(n=n, interaction="additive", oracle="documented algorithm")))
        smax_n = {"quick": dict(additive=2, random=3, nested=3), "thorough": dict(additive=2, random=4, nested=3)}[tier][kind]  # special[n=3,additive] exhausts 60 GB of solver memory and special[n=4,nested] did not finish in 2.5 h: outside the bound
        for n in range(1, smax_n + 1):
            gs.append(_mk("special[n=%d,%s]" % (n, kind), special_body(n, kind), dict(n=n, interaction=kind)))
    return gs


def replay(rec):
    g = rec["replay"]["group"]
    for grp in groups("thorough"):
        if grp.__name__ == g:
            pass
    # rebuild the body from the group name
    import re

    m = re.match(r"(weights|special|reference)\[n=(\d+),(\w+)(?:,explicit=([\d+]+))?\]", g)
    kind = m.group(3)
    n = int(m.group(2))
    if m.group(1) == "weights":
        explicit = tuple(tuple(int(ch) for ch in tok) for tok in m.group(4).split("+")) if m.group(4) else ()
        body = weights_body(n, kind, explicit)
    elif m.group(1) == "reference":
        body = additive_reference_body(n)
    else:
        body = special_body(n, kind)
    return replay_body(body, rec["model"], rec["replay"]["claim"])
