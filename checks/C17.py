"""
C17 -- sampled runs are independent draws and do not alter sources (fragment decided by this technique).

np.random.randn is replaced by a stub returning an arbitrary real per requested number (fresh symbolic variable per draw);
the real TimeSeries.sample, parameters.Parameter.sample, ParameterSet.sample, Program.sample, Covout.sample,
ProgramSet.sample and project._run_sampled_sim are executed on symbolic values and uncertainties.
"""

import copy
import numpy as np
from vsym import shim
from vsym.env import run_body, replay_body
from vsym.core import _same

TECHNIQUE = "symbolic execution of the real sampling methods on z3-real proxies with np.random.randn replaced by a stub that returns a fresh symbolic real per draw; universal obligations (copy = source + sigma*draw, source untouched, identity for sigma None/0) and existential obligations (two samples can differ); SMT; replay on the unpatched code with the stub fed from the model"
EXPLANATION = (
    "Decided: for TimeSeries with {assumption only, time values only, both}, constant and per-point sampling, symbolic values and sigma: the sample is a copy whose every value is source + sigma*draw (one draw for constant sampling, one per point otherwise), "
    "the source is term-for-term unchanged, sigma None or 0 gives the source values, each call consumes fresh draws and two samples of one source can differ in every perturbed value (existential obligation). Covout.sample perturbs every program outcome and every explicit "
    "interaction outcome, refreshes the cached deltas/combination outcomes (checked through the real get_outcome) and does not raise, with and without explicit interactions. ParameterSet.sample / ProgramSet.sample on the udt demo objects return perturbed copies and leave the source unchanged. "
    "_run_sampled_sim hands the *sampled* parameter set and program set to the simulation. NOT decided (nothing for a solver to vary): independence of the draws across serial/parallel workers (process forking, global RNG state, pool scheduling)."
)
GROUP_TIMEOUT = {"quick": 1800, "thorough": 3000}


class RandStub:
    """np.random.randn stand-in: every requested number is env.real('draw<k>')"""

    def __init__(self, env):
        self.env = env
        self.k = 0
        self.draws = []

    def __call__(self, *shape):
        n = int(np.prod(shape)) if shape else 1
        vals = []
        for _ in range(n):
            self.k += 1
            v = self.env.real("draw%d" % self.k, -5, 5)
            vals.append(v)
            self.draws.append(v)
        if not shape:
            return vals[0]
        return self.env.array(vals)


class _Both:
    """shims only in symbolic mode; the randn stub in both modes (the concrete replay feeds the draws from the model)"""

    def __init__(self, env, mods, stub):
        self.a = env.installed(shim.patches_for(*mods))
        self.b = shim.Installed([(np.random, "randn", stub)])

    def __enter__(self):
        self.a.__enter__()
        self.b.__enter__()
        return self

    def __exit__(self, *exc):
        self.b.__exit__(*exc)
        self.a.__exit__(*exc)
        return False


def _patches(env, *mods):
    stub = RandStub(env)
    return _Both(env, mods, stub), stub


def ts_body(pattern, constant, sigma_kind):
    def body(env):
        import atomica.utils as au

        t = [2000.0, 2005.0, 2010.0]
        vals = [env.real("v%d" % i, -1e3, 1e3) for i in range(3)] if pattern in ("time", "both") else []
        asm = env.real("assumption", -1e3, 1e3) if pattern in ("assumption", "both") else None
        sigma = {"none": None, "zero": 0.0, "sym": env.real("sigma", 0, 10) if sigma_kind == "sym" else None}[sigma_kind]
        patches, stub = _patches(env, au)
        with patches:
            src = au.TimeSeries(t=t[: len(vals)] if vals else None, vals=list(vals) if vals else None, assumption=asm, sigma=sigma)
            before = (list(src.t), list(src.vals), src.assumption, src.sigma)
            s1 = src.sample(constant)
            n1 = len(stub.draws)
            s2 = src.sample(constant)
            after = (list(src.t), list(src.vals), src.assumption, src.sigma)
        env.claim("source_unchanged", env.true(before[0] == after[0] and all(_same(a, b) for a, b in zip(before[1], after[1])) and _same(before[2], after[2]) and _same(before[3], after[3])), key="source_unchanged")
        env.claim("sample_is_a_copy", env.true(s1 is not src and s1.vals is not src.vals), key="copy")
        sg = 0.0 if sigma is None else sigma
        d1 = stub.draws[:n1]
        d2 = stub.draws[n1:]
        for tag, smp, d in (("first", s1, d1), ("second", s2, d2)):
            if sigma is None:
                env.claim("%s_sample_equals_source_without_uncertainty" % tag, env.all([env.eq(a, b, 0) for a, b in zip(smp.vals, vals)] + ([env.eq(smp.assumption, asm, 0)] if asm is not None else [])), key="no_uncertainty")
                continue
            const_draw = d[0]
            if asm is not None:
                env.claim("%s_assumption_perturbed" % tag, env.eq(smp.assumption, asm + sg * const_draw), key="assumption_perturbed")
            for i, v in enumerate(vals):
                dr = const_draw if constant else d[1 + i]
                env.claim("%s_value%d_perturbed" % (tag, i), env.eq(smp.vals[i], v + sg * dr), key="value_perturbed[constant=%s]" % constant)
        env.claim("times_kept", env.true(list(s1.t) == list(src.t)), key="times")
        if sigma_kind == "sym":
            # independence in the only sense a solver can decide: the two samples are driven by different draws, hence can differ
            for i in range(len(vals)):
                env.claim_possible("two_samples_can_differ_in_value%d" % i, env.b(s1.vals[i] != s2.vals[i]) if env.symbolic else (s1.vals[i] != s2.vals[i]), key="samples_can_differ")
            if asm is not None:
                env.claim_possible("two_samples_can_differ_in_assumption", env.b(s1.assumption != s2.assumption) if env.symbolic else (s1.assumption != s2.assumption), key="samples_can_differ")
            if not constant and len(vals) > 1:
                env.claim_possible("points_get_independent_draws", env.b((s1.vals[0] - vals[0]) != (s1.vals[1] - vals[1])) if env.symbolic else ((s1.vals[0] - vals[0]) != (s1.vals[1] - vals[1])), key="independent_points")

    return body


def covout_body(interactions, sigma_kind):
    def body(env):
        import atomica.programs as ap
        import atomica.utils as au

        names = ["P0", "P1"]
        base = env.real("baseline", 0, 1)
        outs = [env.real("out%d" % i, 0, 1) for i in range(2)]
        sigma = {"none": None, "zero": 0.0, "sym": env.real("sigma", 0, 1) if sigma_kind == "sym" else None}[sigma_kind]
        patches, stub = _patches(env, ap, au)
        with patches:
            cv = ap.Covout("par", "pop", dict(zip(names, outs)), cov_interaction="random", imp_interaction="P0+P1=0.5" if interactions else None, uncertainty=sigma, baseline=base)
            cv.sample()
            new = [cv.progs[n] for n in names]
            full = [cv.get_outcome({"P0": env.array([1.0 if i == 0 else 0.0]), "P1": env.array([1.0 if i == 1 else 0.0])}) for i in range(2)]
            both = cv.get_outcome({"P0": env.array([1.0]), "P1": env.array([1.0])})
        sg = 0.0 if sigma is None else sigma
        d = stub.draws
        for i in range(2):
            exp = outs[i] + (sg * d[i] if sigma is not None else 0.0)
            env.claim("program_outcome_%d_perturbed" % i, env.eq(new[i], exp), key="covout_outcome")
            env.claim("cache_refreshed_%d" % i, env.eq(full[i], exp), key="covout_cache")
        if interactions:
            exp = 0.5 + (sg * d[2] if sigma is not None else 0.0)
            env.claim("interaction_outcome_perturbed_and_used", env.eq(both, exp), key="covout_interaction")

    return body


def sets_body(kind):
    """ParameterSet.sample / ProgramSet.sample on the udt demo objects with symbolic uncertainties on two quantities"""

    def body(env):
        import atomica as at
        import atomica.programs as ap
        import atomica.utils as au
        import atomica.parameters as apar
        from checks.relational import _numbers

        P = _demo()
        patches, stub = _patches(env, ap, au, apar)
        with patches:
            if kind == "parset_links":
                # uncertainty entered on transfers and interactions (stored apart from the ordinary parameters)
                import checks.C06  # registers M11 (two populations, interaction weights)
                from checks.modelstep import project

                P = project("M11", 3, 0.25, pops=2, transfers=1)
                src = copy.deepcopy(P.parsets[0])
                targets = []
                for gname in ("transfers", "interactions"):
                    for nm, d in getattr(src, gname).items():
                        for srcpop, par in d.items():
                            for dst, ts in par.ts.items():
                                if ts.has_data:
                                    ts.sigma = env.real("sigma|%s|%s|%s>%s" % (gname, nm, srcpop, dst), 0, 2)
                                    targets.append((gname, nm, srcpop, dst))
                env.claim("transfer_and_interaction_entries_present", env.true(len({t[0] for t in targets}) == 2), key="setup")
                before = _numbers(src)
                new = src.sample()
                after = _numbers(src)
                for k, (gname, nm, srcpop, dst) in enumerate(targets):
                    a, b = getattr(src, gname)[nm][srcpop].ts[dst], getattr(new, gname)[nm][srcpop].ts[dst]
                    dr = stub.draws[k] if k < len(stub.draws) else None
                    if dr is None:
                        env.claim("sample_perturbs|%s|%s|%s>%s" % (gname, nm, srcpop, dst), env.true(False), key="parset_sample_links")
                        continue
                    conds = [env.eq(y, x + a.sigma * dr) for x, y in zip(a.vals, b.vals)]
                    if a.assumption is not None:
                        conds.append(env.eq(b.assumption, a.assumption + a.sigma * dr))
                    env.claim("sample_perturbs|%s|%s|%s>%s" % (gname, nm, srcpop, dst), env.all(conds), key="parset_sample_links")
            elif kind.startswith("program_field:"):
                # every dated quantity of a program (spending, unit cost, capacity constraint, saturation, coverage) is sampled from
                # its own values: copy = source + sigma x draw, the other fields of the copy equal the source's
                field = kind.split(":")[1]
                src = copy.deepcopy(P.progsets[0])
                prog = list(src.programs.values())[0]
                fields = ("spend_data", "unit_cost", "capacity_constraint", "saturation", "coverage")
                given = {}
                for f in fields:
                    ts = getattr(prog, f)
                    if f == field or not ts.has_data:
                        a = env.real("value|%s" % f, 0.01, 100)
                        setattr(prog, f, au.TimeSeries(assumption=a, units=ts.units, sigma=env.real("sigma|%s" % f, 0, 2) if f == field else None))
                    given[f] = getattr(prog, f)
                before = _numbers(src)
                new = src.sample()
                after = _numbers(src)
                nprog = list(new.programs.values())[0]
                for f in fields:
                    a, b = given[f], getattr(nprog, f)
                    d = (a.sigma * stub.draws[0]) if f == field else 0.0
                    conds = [env.true(len(a.vals) == len(b.vals))] + [env.eq(y, x + d) for x, y in zip(a.vals, b.vals)]
                    if a.assumption is not None:
                        conds.append(env.true(b.assumption is not None) & (env.eq(b.assumption, a.assumption + d) if b.assumption is not None else env.true(False)))
                    else:
                        conds.append(env.true(b.assumption is None))
                    env.claim("sampled_program_%s_comes_from_its_own_values" % f, env.all(conds), key="program_field_sample")
            elif kind == "parset":
                src = copy.deepcopy(P.parsets[0])
                targets = []
                for pname in list(src.pars.keys())[:2]:
                    for pop, ts in src.pars[pname].ts.items():
                        ts.sigma = env.real("sigma|%s|%s" % (pname, pop), 0, 2)
                        targets.append((pname, pop))
                before = _numbers(src)
                new = src.sample()
                after = _numbers(src)
                k = 0
                for pname, pop in targets:
                    a, b = src.pars[pname].ts[pop], new.pars[pname].ts[pop]
                    dr = stub.draws[k]
                    k += 1
                    conds = [env.eq(y, x + a.sigma * dr) for x, y in zip(a.vals, b.vals)]
                    if a.assumption is not None:
                        conds.append(env.eq(b.assumption, a.assumption + a.sigma * dr))
                    env.claim("parset_sample_perturbs|%s|%s" % (pname, pop), env.all(conds), key="parset_sample")
            else:
                src = copy.deepcopy(P.progsets[0])
                prog = list(src.programs.values())[0]
                prog.unit_cost.sigma = env.real("sigma|unit_cost", 0, 2)
                cvk = list(src.covouts.keys())[0]
                src.covouts[cvk].sigma = env.real("sigma|covout", 0, 0.1)
                before = _numbers(src)
                new = src.sample()
                after = _numbers(src)
                a, b = prog.unit_cost, list(new.programs.values())[0].unit_cost
                env.claim("progset_sample_perturbs_unit_cost", env.all([env.eq(y, x + a.sigma * stub.draws[0]) for x, y in zip(a.vals, b.vals)] + ([env.eq(b.assumption, a.assumption + a.sigma * stub.draws[0])] if a.assumption is not None else [])), key="progset_sample")
                env.claim("progset_sample_is_new_object", env.true(new is not src and new.covouts[cvk] is not src.covouts[cvk]), key="progset_copy")
        same = [p for p, _ in before] == [p for p, _ in after] and all((_same(x, y) if not isinstance(x, tuple) else x == y) for (_, x), (_, y) in zip(before, after))
        env.claim("%s_source_unchanged" % kind, env.true(bool(same)), key="source_unchanged")

    return body


def runner_body(with_progset):
    """project._run_sampled_sim passes the sampled objects on to the simulation"""

    def body(env):
        import atomica as at
        import atomica.project as aproj
        import atomica.programs as ap
        import atomica.utils as au
        import atomica.parameters as apar

        P = _demo()
        patches, stub = _patches(env, ap, au, apar, aproj)
        with patches:
            parset = copy.deepcopy(P.parsets[0])
            pname = list(parset.pars.keys())[0]
            pop = list(parset.pars[pname].ts.keys())[0]
            parset.pars[pname].ts[pop].sigma = env.real("sigma_par", 0.1, 2)
            progset = None
            if with_progset:
                progset = copy.deepcopy(P.progsets[0])
                list(progset.programs.values())[0].unit_cost.sigma = env.real("sigma_uc", 0.1, 2)
            seen = []

            class Proj:
                def run_sim(self, parset=None, progset=None, progset_instructions=None, result_name=None, **k):
                    seen.append((parset, progset))
                    return result_name

            aproj._run_sampled_sim(Proj(), parset, progset, [None] if with_progset else None, ["r"])
        used_parset, used_progset = seen[0]
        src_ts = parset.pars[pname].ts[pop]
        new_ts = used_parset.pars[pname].ts[pop]
        ref = src_ts.assumption if src_ts.assumption is not None else src_ts.vals[0]
        got = new_ts.assumption if src_ts.assumption is not None else new_ts.vals[0]
        env.claim("simulation_uses_the_sampled_parset", env.true(used_parset is not parset), key="runner_parset_object")
        env.claim_possible("sampled_parset_differs_from_source", env.b(got != ref) if env.symbolic else (got != ref), key="runner_parset_sampled")
        if with_progset:
            env.claim("simulation_uses_the_sampled_progset", env.true(used_progset is not progset), key="runner_progset_object")
            a = list(progset.programs.values())[0].unit_cost
            b = list(used_progset.programs.values())[0].unit_cost
            ra = a.assumption if a.assumption is not None else a.vals[0]
            rb = b.assumption if a.assumption is not None else b.vals[0]
            env.claim_possible("sampled_progset_differs_from_source", env.b(rb != ra) if env.symbolic else (rb != ra), key="runner_progset_sampled")

    return body


_D = {}


def _demo():
    if "p" not in _D:
        import atomica as at

        _D["p"] = at.demo("udt", do_run=False)
    return _D["p"]


def _funcs():
    import atomica.utils as au
    import atomica.parameters as apar
    import atomica.programs as ap
    import atomica.project as aproj

    return [au.TimeSeries.sample, au.TimeSeries.copy, apar.Parameter.sample, apar.ParameterSet.sample, ap.Program.sample, ap.Covout.sample, ap.Covout.update_outcomes, ap.ProgramSet.sample, aproj._run_sampled_sim]


def specs(tier):
    out = []
    for pattern in ("assumption", "time", "both"):
        for constant in (True, False):
            for sk in ("sym", "none", "zero"):
                if tier == "quick" and sk != "sym" and not constant:
                    continue
                out.append(("timeseries[%s;constant=%s;sigma=%s]" % (pattern, constant, sk), ts_body, dict(pattern=pattern, constant=constant, sigma_kind=sk)))
    for inter in (False, True):
        for sk in ("sym", "none", "zero"):
            out.append(("covout[interactions=%s;sigma=%s]" % (inter, sk), covout_body, dict(interactions=inter, sigma_kind=sk)))
    out.append(("parset_sample[udt]", sets_body, dict(kind="parset")))
    out.append(("parset_sample[M11;transfers and interactions]", sets_body, dict(kind="parset_links")))
    out.append(("progset_sample[udt]", sets_body, dict(kind="progset")))
    for f in ("spend_data", "unit_cost", "capacity_constraint", "saturation", "coverage"):
        out.append(("program_sample[udt;sigma on %s]" % f, sets_body, dict(kind="program_field:" + f)))
    out.append(("run_sampled_sim[parset only]", runner_body, dict(with_progset=False)))
    out.append(("run_sampled_sim[with progset]", runner_body, dict(with_progset=True)))
    return out


def groups(tier):
    gs = []
    for nm, fac, kw in specs(tier):
        body = fac(**kw)

        def g(tier_, seed, _b=body, _nm=nm, _kw=kw):
            return run_body(_b, _nm, tier_, seed, functions=_funcs(), bounds=_kw, stubs=["np.random.randn -> fresh symbolic real in [-5,5] per requested number (fed from the model in the concrete replay)", "numpy/sciris in atomica.utils, parameters, programs, project -> vsym shims"], timeout_ms=60000, max_paths=500)

        g.__name__ = nm
        gs.append(g)
    return gs


def replay(rec):
    for nm, fac, kw in specs("thorough"):
        if nm == rec["replay"]["group"]:
            return replay_body(fac(**kw), rec["model"], rec["replay"]["claim"])
    return False, "unknown group"
