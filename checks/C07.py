"""
C07 -- initial state matches the databook or the run is refused; characteristic sums stay consistent.

(a) real Model.build -> Population.initialize_compartments with symbolic databook values and calibration factors for the
    setup quantities; np.linalg.lstsq is replaced by its contract for the concrete inclusion matrix (exact rational
    minimum-norm least squares, linear in the symbolic right-hand side).
(b) real Characteristic.vals (reported values) and Characteristic.update (values used during integration) on symbolic stocks.
"""

import copy
import numpy as np
from vsym import modelrun as mr, gen, shim
from vsym.env import run_body, replay_body

TECHNIQUE = "symbolic execution of the real Population.initialize_compartments / Characteristic.vals / Characteristic.update on z3-real proxies (lstsq replaced by its exact contract for the concrete inclusion matrix, the initialisation explored as one merge point with BadInitialization collected as a symbolic raise condition); SMT obligations; counterexamples replayed on the unpatched code with the real LAPACK lstsq"
EXPLANATION = (
    "(a) Inclusion structures: I1 nested characteristics, I2 over-determined (consistent or not, decided by the symbolic values), I3 under-determined, I4 fraction characteristic with denominator, I6 junction among the unknowns; "
    "databook values in [0,1e6] (fractions in [0,1]) and per-population / all-population calibration factors in [0.1,10] are symbolic. Obligation: on every path of the real initialisation that does not raise BadInitialization "
    "every stored stock is >= 0 and every used databook quantity (value x factors, fractions x their denominator) is reproduced by the *stored* stocks within 1e-6; any other exception is a violation. The raise condition is itself "
    "checked to be reachable (inconsistent data are refused) and not always true (consistent data are accepted). (b) For arbitrary non-negative stocks the reported characteristic equals sum(members)/denominator, 0 when the numerator is below 1e-6, "
    "and the value stored during integration equals sum/denominator (0 for 0/0). Bounds: <= 4 unknown compartments, <= 4 equations, one population type (population types other than the default are outside), T = 2; tolerance 1e-6 as stated by the property."
)
GROUP_TIMEOUT = {"quick": 1800, "thorough": 3600}


def _rate():
    return [dict(name="r", format="rate", default=0.1)]


def _cyc(names):
    return {(names[i], names[(i + 1) % len(names)]): "r" for i in range(len(names))}


def I1():
    return dict(name="I1", comps=[dict(name="a", default=50), dict(name="b", setup=False), dict(name="c", setup=False)], characs=[dict(name="alive", components="ab,c", default=100), dict(name="ab", components="a,b", default=80)], pars=_rate(), transitions=_cyc(["a", "b", "c"]))


def I2():
    return dict(name="I2", comps=[dict(name="a", default=50), dict(name="b", default=30), dict(name="c", default=20)], characs=[dict(name="alive", components="a,b,c", default=100)], pars=_rate(), transitions=_cyc(["a", "b", "c"]))


def I3():
    return dict(name="I3", comps=[dict(name="a", default=50), dict(name="b", setup=False), dict(name="c", setup=False)], characs=[dict(name="alive", components="a,b,c", default=100)], pars=_rate(), transitions=_cyc(["a", "b", "c"]))


def I4():
    return dict(name="I4", comps=[dict(name="sus", setup=False), dict(name="inf", setup=False)], characs=[dict(name="alive", components="sus,inf", default=100), dict(name="prev", components="inf", denominator="alive", default=0.2)], pars=_rate(), transitions=_cyc(["sus", "inf"]))


def I6():
    return dict(
        name="I6",
        comps=[dict(name="a", default=50), dict(name="j", junction="y", setup=False), dict(name="b", setup=False)],
        characs=[dict(name="alive", components="a,j,b", default=100)],
        pars=_rate() + [dict(name="p", format="proportion", default=1.0)],
        transitions={("a", "j"): "r", ("j", "b"): "p", ("b", "a"): "r"},
    )


def I7():
    """a timed compartment whose duration (0.6 y) is not a whole number of steps (dt = 0.25 y: 3 rows), initialised from the databook"""
    return dict(
        name="I7",
        comps=[dict(name="a", default=50), dict(name="v", default=40), dict(name="w", setup=False)],
        characs=[dict(name="alive", components="a,v,w", default=100)],
        pars=_rate() + [dict(name="dur", format="duration", default=0.6, timed="y")],
        transitions={("a", "v"): "r", ("v", "w"): "dur", ("w", "a"): "r"},
    )


def I8():
    """a compartment without databook entry whose framework default is 0 (it must start empty) next to a free one"""
    return dict(name="I8", comps=[dict(name="a", default=50), dict(name="b", setup=False, default=0), dict(name="c", setup=False)], characs=[dict(name="alive", components="a,b,c", default=100)], pars=_rate(), transitions=_cyc(["a", "b", "c"]))


def I6b():
    """a junction that has its own databook value AND is a member of a characteristic used for initialisation"""
    d = I6()
    d["name"] = "I6b"
    d["comps"] = [dict(name="a", default=50), dict(name="j", junction="y", setup=True, default=20), dict(name="b", setup=False), dict(name="c", setup=False)]
    d["characs"] = [dict(name="alive", components="a,j,b,c", default=100)]
    d["transitions"] = {("a", "j"): "r", ("j", "b"): "p", ("b", "c"): "r", ("c", "a"): "r"}
    return d


def I9():
    """nothing at all is entered for initialisation (every compartment starts empty and fills from the source)"""
    return dict(name="I9", comps=[dict(name="src", source="y"), dict(name="a", setup=False), dict(name="b", setup=False)], characs=[dict(name="alive", components="a,b", setup=False)], pars=_rate() + [dict(name="birth", format="number", default=10)], transitions={("src", "a"): "birth", ("a", "b"): "r", ("b", "a"): "r"})


STRUCTS = dict(I1=I1, I2=I2, I3=I3, I4=I4, I6=I6, I6b=I6b, I7=I7, I8=I8, I9=I9)
_P = {}


def proj(name):
    if name not in _P:
        _P[name] = gen.make_project(STRUCTS[name](), end=2000.25)
    return _P[name]


def init_body(name, y_factors):
    def body(env):
        am, ap, au, apar, afp = mr.modules()
        P = proj(name)
        F = P.framework
        ps = copy.deepcopy(P.parsets[0])
        setup = list(F.characs.index[F.characs["setup weight"] > 0]) + list(F.comps.index[F.comps["setup weight"] > 0])
        vals = {}
        for q in F.characs.index.tolist() + F.comps.index.tolist():
            if q not in ps.pars:
                continue
            par = ps.pars[q]
            for pop, ts in par.ts.items():
                if not ts.has_data:
                    continue
                frac = q in F.characs.index and isinstance(F.characs.at[q, "denominator"], str)
                tbl = F.comps if q in F.comps.index else F.characs
                if not isinstance(tbl.at[q, "databook page"], str):
                    # not in the databook: the value is the framework default (0), not an input
                    vals[q] = ts.assumption
                    continue
                ts.assumption = env.real("data|%s" % q, 0.0, 1.0 if frac else 1e6)
                yf = myf = 1.0
                if y_factors:
                    par.y_factor[pop] = env.real("yf|%s" % q, 0.1, 10.0)
                    par.meta_y_factor = env.real("myf|%s" % q, 0.1, 10.0)
                    yf, myf = par.y_factor[pop], par.meta_y_factor
                vals[q] = ts.assumption * yf * myf
        env.declare_raises("BadInitialization")
        with mr.session(env):
            m = am.Model(P.settings, F, ps)
            pop = m.pops[0]
            stocks = {c.name: c.vals[0] for c in pop.comps}
        raised = env.raised("BadInitialization")

        def members(q):
            if q in pop.comp_lookup:
                return [q]
            return [c.name for c in pop.charac_lookup[q].get_included_comps()]

        for cname, v in stocks.items():
            env.claim("stored_stock_is_a_number|%s" % cname, env.true(not (isinstance(v, (float, np.floating)) and v != v)), key="stock_nonneg")
            env.claim("stored_stock_nonneg|%s" % cname, env.ge(v, 0.0, 0), key="stock_nonneg")
            if cname in F.comps.index and not isinstance(F.comps.at[cname, "databook page"], str) and F.comps.at[cname, "default value"] == 0:
                # no databook entry and a framework default of 0: the compartment starts empty
                env.claim("zero_default_compartment_starts_empty|%s" % cname, env.le(v, 1e-6, 0), key="zero_default")
        for q in setup:
            tot = 0.0
            for c in members(q):
                tot = tot + stocks[c]
            target = vals[q]
            if q in F.characs.index and isinstance(F.characs.at[q, "denominator"], str):
                target = target * vals[F.characs.at[q, "denominator"]]
            # the property's tolerance is absolute: 1e-6 people
            d = tot - target
            ok = env.le(d, 1e-6, 0) & env.ge(d, -1e-6, 0)
            env.claim("databook_quantity_reproduced|%s" % q, ok, key="reproduced[%s]" % q)
        if env.symbolic:
            # the refusal is real (some data are refused) and not total (some data are accepted)
            from vsym.core import SB
            import z3

            r1 = env.ctx.reachable("some_data_accepted")
            env.note("accepted_witness", r1.status)

    return body


def refusal_body(name):
    """Data that no non-negative assignment can match must be refused: a member larger than the whole"""

    def body(env):
        am, ap, au, apar, afp = mr.modules()
        P = proj(name)
        F = P.framework
        ps = copy.deepcopy(P.parsets[0])
        a = env.real("data|a", 0.0, 1e6)
        alive = env.real("data|alive", 0.0, 1e6)
        env.assume(env.b(a > alive + 1e-3), "the databook asks for a compartment larger than the characteristic containing it")
        ps.pars["a"].ts["pop_0"].assumption = a
        ps.pars["alive"].ts["pop_0"].assumption = alive
        env.declare_raises("BadInitialization")
        env.check_reachable("such_data_exist")
        refused = False
        try:
            with mr.session(env):
                m = am.Model(P.settings, F, ps)
        except am.BadInitialization:
            refused = True  # concrete replay
        except BaseException as e:
            from vsym.core import Abort

            if isinstance(e, Abort):
                refused = True  # every local path of the initialisation raised the declared exception
            else:
                raise
        if env.symbolic and not refused:
            # the continuing path stands for the executions that did NOT raise: it must be unreachable
            env.claim("impossible_data_are_refused", env.true(False), key="refused")
        else:
            env.claim("impossible_data_are_refused", env.true(refused), key="refused")

    return body


def charac_body(with_denominator, nested, dynamic):
    """Reported (`.vals`) or integration-time (`update`) characteristic values on arbitrary stocks"""

    def body(env):
        am, ap, au, apar, afp = mr.modules()
        from vsym.micro import StubPop, arr

        pop = StubPop()
        T = 2
        comps = []
        for nm in ("a", "b", "c"):
            c = pop.add_comp(am.Compartment(pop, nm))
            c.t = np.arange(T, dtype=float)
            c.vals = arr(env, (T,))
            for ti in range(T):
                c.vals[ti] = env.real("%s_%d" % (nm, ti), 0, 1e6)
            comps.append(c)
        alive = am.Characteristic(pop, "alive")
        ab = am.Characteristic(pop, "ab")
        ab.add_include(comps[0])
        ab.add_include(comps[1])
        if nested:
            alive.add_include(ab)
        else:
            alive.add_include(comps[0])
            alive.add_include(comps[1])
        alive.add_include(comps[2])
        target = am.Characteristic(pop, "frac")
        target.add_include(comps[0])
        if nested:
            target.add_include(comps[1])
        if with_denominator:
            target.add_denom(alive)
        for ch in (alive, ab, target):
            ch.t = np.arange(T, dtype=float)
        with env.installed(shim.patches_for(am)):
            if dynamic:
                for ch in (ab, alive, target):
                    ch._is_dynamic = True
                    ch._vals = arr(env, (T,))
                got = []
                for ti in range(T):
                    ab.update(ti)
                    alive.update(ti)
                    target.update(ti)
                    got.append(target._vals[ti])
            else:
                v = target.vals
                got = [v[ti] for ti in range(T)]
        for ti in range(T):
            num = comps[0].vals[ti] + (comps[1].vals[ti] if nested else 0.0)
            den = comps[0].vals[ti] + comps[1].vals[ti] + comps[2].vals[ti]
            if not with_denominator:
                env.claim("characteristic_is_sum_of_members_t%d" % ti, env.eq(got[ti], num), key="sum")
                continue
            tiny = env.b(num < 1e-6)
            if dynamic:
                env.claim("integration_value_is_quotient_t%d" % ti, env.eq(got[ti] * den, num), under=env.b(den > 0), key="quotient_dynamic")
                env.claim("integration_zero_over_zero_is_zero_t%d" % ti, env.eq(got[ti], 0.0, 0), under=env.b(den <= 0) & tiny, key="zero_over_zero")
            else:
                env.claim("reported_zero_when_numerator_below_tolerance_t%d" % ti, env.eq(got[ti], 0.0, 0), under=tiny, key="tiny_numerator_zero")
                env.claim("reported_value_is_quotient_t%d" % ti, env.eq(got[ti] * den, num), under=(~tiny) & env.b(den > 0) if env.symbolic else ((not tiny) and den > 0), key="quotient")

    return body


def _funcs():
    am, ap, au, apar, afp = mr.modules()
    return [am.Population.initialize_compartments, am.Characteristic.vals, am.Characteristic.update, am.Characteristic.get_included_comps, am.Model.build, apar.Parameter.interpolate]


def specs(tier):
    out = []
    for nm in STRUCTS:
        out.append(("init[%s;factors]" % nm, init_body, dict(name=nm, y_factors=True), ("BadInitialization",)))
        if tier != "quick":
            out.append(("init[%s]" % nm, init_body, dict(name=nm, y_factors=False), ("BadInitialization",)))
    for nm in ("I2", "I3"):
        out.append(("refusal[%s]" % nm, refusal_body, dict(name=nm), ("BadInitialization", "noreach")))
    for den in (False, True):
        for nested in (False, True):
            for dyn in (False, True):
                out.append(("characteristic[den=%d;nested=%d;%s]" % (den, nested, "integration" if dyn else "reported"), charac_body, dict(with_denominator=den, nested=nested, dynamic=dyn), ()))
    return out


def groups(tier):
    gs = []
    for nm, fac, kw, exc in specs(tier):
        body = fac(**kw)

        def g(tier_, seed, _b=body, _nm=nm, _kw=kw, _exc=exc):
            return run_body(_b, _nm, tier_, seed, functions=_funcs(), bounds=_kw, stubs=["np.linalg.lstsq -> exact minimum-norm least squares x = pinv(A) b for the concrete 0/1 inclusion matrix A (rational arithmetic), real LAPACK lstsq on the concrete replay path", "Population.initialize_compartments explored as one merge point; BadInitialization collected as a symbolic raise condition", "numpy in atomica.model -> vsym shim (boolean-mask assignments fork per element)"], timeout_ms=120000, declared_exceptions=tuple(x for x in _exc if x != "noreach"), max_paths=5000, final_reach=("noreach" not in _exc))

        g.__name__ = nm
        gs.append(g)
    return gs


def replay(rec):
    for nm, fac, kw, exc in specs("thorough"):
        if nm == rec["replay"]["group"]:
            return replay_body(fac(**kw), rec["model"], rec["replay"]["claim"])
    return False, "unknown group"
