"""C08 -- relational groups, see checks/relational.py and DESIGN.md §5 C08"""
from checks import relational, c08fp

TECHNIQUE = "two symbolic executions of the real Model.build/process (and of set_initialization / ParameterScenario.get_parset / deepcopy / pickle) on z3-real proxies compared output by output: z3 term identity where both runs build the same term, SMT otherwise; counterexamples replayed on the unpatched code; plus QF_FP (IEEE binary64) queries on the accumulation order of every function dependency list of a built model and its deep copy / unpickled copy, replayed through the real Parameter.update"
EXPLANATION = "Original vs deep copy / pickle round trip / independent rebuild of the same inputs (M12 with programs, M7 timed, M10 functions, M1 with a partial hand-written initialization), the copy run *before* the original; and two projects whose frameworks share parameter names with different functions built, copied and run interleaved, each compared with a model built afresh afterwards. Obligations: every stock (rows of timed compartments), flow, parameter and sum-characteristic of the two runs is equal at every index (step-wise lockstep: after each Model.update_comps the second run's new stocks are proved equal to the first run's one-step terms and both continue from the same fresh variables), and the numeric content of the ParameterSet, ProgramSet, ProgramInstructions, framework tables and settings passed in is term-for-term unchanged afterwards. Not decided by this technique (no solver variable to vary): repeatability across processes, Result save/load files, OS-level state. Bit level (checks/c08fp.py): for a built M10F3 model (flow dependencies of 3 and 4 addends, two populations) and its deepcopy / pickle copy, each dependency list of each function parameter is either the same sequence (one term) or z3 decides over Float64 whether doubles exist on which the left-to-right sums differ; a solver model is written into the real objects and Parameter.update is run on both. Bounds: T <= 7 time points, dt = 0.25, one population (two with a transfer in thorough), values in unit ranges; floats as reals."
GROUP_TIMEOUT = {"quick": 1800, "thorough": 3600}


def groups(tier):
    return relational.groups("C08", tier) + c08fp.groups(tier)


def replay(rec):
    if rec.get("replay", {}).get("group") == "c08fp":
        return c08fp.replay(rec)
    return relational.replay("C08", rec)
