"""
C08, bit level: a deep-copied or unpickled model accumulates every function dependency in the same floating-point order.

`Parameter.update` adds the current values of each dependency list (`deps[name]`, e.g. every link of `par:flow` or every link
into `:dead`) left to right, in IEEE doubles.  Over the reals the order does not matter, so the lockstep groups of
checks/relational.py cannot see a copy whose lists come back permuted; in doubles it does.  This group reads the dependency
lists of a really built model and of its copy (Model.__deepcopy__ / pickle -> Parameter.unlink/relink), encodes the real
accumulation loop for both orders over Float64 (round to nearest even) and asks z3 (QF_FP) for dependency values on which the
two sums differ.  Lists that come back in the same order give the same term and need no query.  A model found by the solver is
replayed on the real objects: the values are written into the dependency arrays of the original and of the copy, the real
`Parameter.update(0)` runs on both, and only a bitwise difference of the results is reported.
"""

import copy
import pickle
import struct
import time
import z3

from vsym import fp
from vsym import gen
from vsym.report import stats_of


def SPEC():
    """three and four links behind one flow dependency, in two populations"""
    return dict(
        name="M10F3",
        comps=[dict(name="s", default=500), dict(name="q", default=300), dict(name="p", default=200), dict(name="o", default=100), dict(name="dead", sink="y")],
        pars=[
            dict(name="zz", format="probability", default=0.2),
            dict(name="mm", format="probability", default=0.03),
            dict(name="aa", format="probability", default=0.07),
            dict(name="r2", format="probability", default=0.1),
            dict(name="r3", format="probability", default=0.05),
            dict(name="mort", format="rate", default=0.1),
            dict(name="deaths", format="number", function="mort:flow"),
            dict(name="alldead", format="number", function=":dead"),
            dict(name="leaving", format="number", function="s:"),
            dict(name="sq", format="number", function="s:q"),
        ],
        transitions={("s", "q"): "zz, mm, aa", ("s", "p"): "r2", ("s", "o"): "r3", ("s", "dead"): "mort", ("q", "dead"): "mort", ("p", "dead"): "mort", ("o", "dead"): "mort"},
    )


def _bits(x):
    return struct.pack(">d", float(x))


def _pairs(m, m2):
    key, objs = {}, []
    for pop, pop2 in zip(m.pops, m2.pops):
        for a, b in zip(pop.comps + pop.characs + pop.pars + pop.links, pop2.comps + pop2.characs + pop2.pars + pop2.links):
            key[id(a)] = key[id(b)] = len(objs)
            objs.append((a, b))
    return key, objs


def _build(route):
    import atomica.model as am

    P = gen.make_project(SPEC(), pops=2)
    m = am.Model(P.settings, P.framework, P.parsets[0])  # never copied: copying unlinks and relinks the model it copies, too
    src = am.Model(P.settings, P.framework, P.parsets[0])
    cp = copy.deepcopy(src) if route.startswith("deepcopy") else pickle.loads(pickle.dumps(src))
    return m, (src if route.endswith("source") else cp)


def _set(dep, v):
    dep.vals[0] = v


def replay_values(route, pop_i, par_name, dep_name, values):
    """values: list of doubles for the dependency list in the ORIGINAL's order.  Returns (bad, detail)"""
    m, m2 = _build(route)
    key, objs = _pairs(m, m2)
    p, p2 = m.pops[pop_i].par_lookup[par_name], m2.pops[pop_i].par_lookup[par_name]
    for d, v in zip(p.deps[dep_name], values):
        a, b = objs[key[id(d)]]
        _set(a, v)
        _set(b, v)
    p.update(0)
    p2.update(0)
    r, r2 = p.vals[0], p2.vals[0]
    return _bits(r) != _bits(r2), "%s of the model, against a model built from the same inputs and never copied: parameter %s in %s evaluates to %r, the original to %r, on dependency values %r" % (route, par_name, m.pops[pop_i].name, float(r2), float(r), values)


def dep_order_group(route):
    def g(tier, seed):
        import atomica.model as am
        from vsym.core import Obligation

        t0 = time.time()
        res = dict(
            name=g.__name__,
            functions=[am.Parameter.update, am.Parameter.unlink, am.Parameter.relink, am.Model.__deepcopy__ if hasattr(am.Model, "__deepcopy__") else am.Model.unlink, am.Model.unlink, am.Model.relink],
            bounds=dict(model="M10F3 (dependency lists of 3 and 4 links), 2 populations", route=route, arithmetic="IEEE-754 binary64, RNE; dependency values in [0, 1e6]", time_index=0),
            stubs=["the accumulation loop of Parameter.update (dep_vals[name] += dep[ti] or dep[ti]/dt, left to right from 0.0) is encoded over Float64 from the real deps lists; the function applied afterwards is executed only in the replay"],
            assumptions=["dependency values are finite doubles in [0, 1e6]"],
            obligations=[],
            violations=[],
            errors=[],
            witnesses=0,
            stats={},
        )
        m, m2 = _build(route)
        key, objs = _pairs(m, m2)
        nq, tsolve = 0, 0.0
        for pi, (pop, pop2) in enumerate(zip(m.pops, m2.pops)):
            for p, p2 in zip(pop.pars, pop2.pars):
                if not p.deps:
                    continue
                for dep_name in p.deps:
                    O = [key[id(d)] for d in p.deps[dep_name]]
                    C = [key.get(id(d), -1) for d in p2.deps[dep_name]]
                    ob = Obligation("same_double_sum[%s|%s|%s]" % (pop.name, p.name, dep_name))
                    ob.meta = dict(key="copy_sum_order", n=len(O), mode="IEEE-754 binary64 (QF_FP)")
                    ob.nontrivial = True
                    if O == C:
                        ob.status = "unsat"
                        ob.text = "the copy lists the same %d dependencies in the same order: one term" % len(O)
                        ob.meta["solver"] = "term identity"
                        res["obligations"].append(ob.as_dict())
                        continue
                    xs = {k: z3.FP("x%d" % k, fp.F64) for k in set(O) | set(C)}
                    base = []
                    for x in xs.values():
                        base += [z3.fpGEQ(x, fp.fv(0.0)), z3.fpLEQ(x, fp.fv(1e6))]

                    def fold(order):
                        acc = fp.fv(0.0)
                        for k in order:
                            a = objs[k][0] if k >= 0 else None
                            term = xs[k]
                            if isinstance(a, am.Link):
                                term = z3.fpDiv(fp.RNE, term, fp.fv(float(a.dt)))
                            acc = z3.fpAdd(fp.RNE, acc, term)
                        return acc

                    s = z3.Solver()
                    s.set("timeout", 60000)
                    s.add(base)
                    s.add(z3.Not(z3.fpEQ(fold(O), fold(C))))
                    t1 = time.time()
                    st = str(s.check())
                    ob.time = time.time() - t1
                    tsolve += ob.time
                    nq += 1
                    ob.status = st
                    ob.size = 4 * len(O)
                    ob.text = "exists doubles: sum in the original's order %r != sum in the copy's order %r" % (O, C)
                    ob.meta["solver"] = "z3-%s" % z3.get_version_string()
                    if st == "sat":
                        mod = s.model()
                        vals = [fp.model_double(mod, xs[k]) for k in O]
                        ob.model = {"x%d" % k: repr(v) for k, v in zip(O, vals)}
                        bad, detail = replay_values(route, pi, p.name, dep_name, vals)
                        if bad:
                            res["violations"].append(dict(key="copy_sum_order[%s]" % route, what=detail, model=ob.model, obligations=[ob.name], replay=dict(group="c08fp", route=route, pop=pi, par=p.name, dep=dep_name, values=[repr(v) for v in vals])))
                        else:
                            res.setdefault("notes", []).append("sums differ but the parameter's function maps them to the same double: " + detail)
                    elif st != "unsat":
                        res["errors"].append("QF_FP query %s inconclusive (%s)" % (ob.name, st))
                    res["obligations"].append(ob.as_dict())
        # vacuity guard: the Float64 encoding of the loop can tell two orders apart at all (the first three-element list, reversed),
        # and the doubles it finds do separate the two sums in Python's own arithmetic
        done = False
        for p in m.pops[0].pars:
            for dep_name, deps in (p.deps or {}).items():
                if len(deps) == 3 and not done:
                    done = True
                    xs = [z3.FP("r%d" % i, fp.F64) for i in range(3)]
                    dts = [float(d.dt) if isinstance(d, am.Link) else None for d in deps]

                    def rfold(idx):
                        acc = fp.fv(0.0)
                        for i in idx:
                            acc = z3.fpAdd(fp.RNE, acc, z3.fpDiv(fp.RNE, xs[i], fp.fv(dts[i])) if dts[i] else xs[i])
                        return acc

                    s = z3.Solver()
                    s.set("timeout", 120000)
                    for x in xs:
                        s.add(z3.fpGEQ(x, fp.fv(0.0)), z3.fpLEQ(x, fp.fv(1e6)))
                    s.add(z3.Not(z3.fpEQ(rfold([0, 1, 2]), rfold([2, 1, 0]))))
                    t1 = time.time()
                    st = str(s.check())
                    ob = Obligation("reversed_order_is_distinguishable[%s|%s]" % (p.name, dep_name))
                    ob.kind = "reach"
                    ob.status = st
                    ob.time = time.time() - t1
                    tsolve += ob.time
                    nq += 1
                    ob.meta = dict(mode="IEEE-754 binary64 (QF_FP)", solver="z3-%s" % z3.get_version_string())
                    if st == "sat":
                        v = [fp.model_double(s.model(), x) for x in xs]
                        t = [v[i] / dts[i] if dts[i] else v[i] for i in range(3)]
                        if _bits((0.0 + t[0]) + t[1] + t[2]) == _bits((0.0 + t[2]) + t[1] + t[0]):
                            res["errors"].append("the Float64 encoding disagrees with Python arithmetic on %r" % (v,))
                        ob.model = {"r%d" % i: repr(v[i]) for i in range(3)}
                    res["obligations"].append(ob.as_dict())
        if not done:
            res["errors"].append("no three-element dependency list in the model (vacuity guard not run)")
        # reachability witness: the replay route really evaluates the function on the values written (original == copy here)
        for pi in (0, 1):
            bad, detail = replay_values(route, pi, "deaths", "mort___flow", [0.1, 0.2, 0.3, 0.7][: len(_build(route)[0].pops[pi].par_lookup["deaths"].deps["mort___flow"])])
            m_, _ = _build(route)
            if bad and not res["violations"]:
                res["errors"].append("witness differs although every dependency list kept its order: " + detail)
            else:
                res["witnesses"] += 1
        res["stats"] = dict(paths=1, queries=nq, solver_time=round(tsolve, 3))
        res["wall_s"] = round(time.time() - t0, 2)
        return res

    g.__name__ = "copy_sum_order[%s]" % route
    return g


def groups(tier):
    return [dep_order_group(r) for r in ("deepcopy", "pickle", "deepcopy:source", "pickle:source")]  # ":source" = the model that was copied, afterwards


def replay(rec):
    r = rec["replay"]
    return replay_values(r["route"], r["pop"], r["par"], r["dep"], [float(v) for v in r["values"]])
