"""C09 -- relational groups, see checks/relational.py and DESIGN.md §5 C09"""
from checks import relational

TECHNIQUE = "two symbolic executions of the real Model.build/process (and of set_initialization / ParameterScenario.get_parset / deepcopy / pickle) on z3-real proxies compared output by output: z3 term identity where both runs build the same term, SMT otherwise; counterexamples replayed on the unpatched code"
EXPLANATION = 'Pairs of runs on M12 (programs) and M10 (function parameters): no programs vs programs starting at Y (Y on and off the grid, three interactions); identical instructions except a change dated Y in a stepped spending / capacity / coverage series that also states the earlier value (incl. a series whose first point lies after the program start); baseline parset vs ParameterScenario.get_parset with first overwrite at Y (linear and previous, data parameter and function parameter); and a run to T vs T+2 points. Obligation: every stock, flow, parameter and sum-characteristic at every index with t < Y (all common indices for the end-year extension) is equal in both runs (lockstep as in C08). The stop-year clause (targets return to data values) is discharged in C13. Bounds: T <= 7 time points, dt = 0.25, one population (two with a transfer in thorough), values in unit ranges; floats as reals.'
GROUP_TIMEOUT = {"quick": 1800, "thorough": 3600}


def groups(tier):
    return relational.groups("C09", tier)


def replay(rec):
    return relational.replay("C09", rec)
