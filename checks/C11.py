"""
C11 -- program coverage is a bounded, monotone function of spending.

Real code executed symbolically: Program.get_capacity, Program.get_prop_covered, ProgramSet.get_alloc, get_capacities,
get_prop_coverage, ProgramInstructions.__init__, TimeSeries.__init__/insert/interpolate('previous').
"""

from vsym.env import run_body, replay_body
from vsym import shim

TECHNIQUE = "symbolic execution of the real Program/ProgramSet/ProgramInstructions/TimeSeries methods on z3-real proxies (numpy/scipy shimmed, exp uninterpreted with instantiated axioms); two-copy monotonicity obligations; SMT (z3, cvc5 portfolio); counterexamples replayed on the unpatched code"
EXPLANATION = (
    "Spending, unit cost, capacity constraint, saturation, number eligible and dt are symbolic; the real get_capacity/get_prop_covered/"
    "get_alloc/get_capacities/get_prop_coverage are executed for every combination of {one-off, continuous} x {no constraint, absolute, per-year} "
    "x {with, without saturation}. Obligations: coverage in [0,1]; two-copy monotonicity in spending (up) and unit cost (down); covered people <= "
    "capacity constraint; coverage <= saturation; coverage*eligible == capacity when unconstrained and below 1; eligible == 0 gives 1 (or min(saturation,1)); "
    "the yearly sum of per-step capacities of a one-off program equals spend/unit cost for dt in {1,1/2,1/4,1/12}; overwrite precedence coverage > capacity > "
    "spending > program book including overwrites of exactly 0 and stepped two-point series (value before the first point = first value, between points = previous). "
    "exp is an uninterpreted function constrained only by instantiated true facts (positivity, exp(0)=1, monotonicity, exp(z)>=1+z, Pade(1,1) bounds), so results hold "
    "for exp in particular. Bounds: one program per query (programs do not interact in these functions), values <= 1e9, unit cost >= 1e-6, saturation in [1e-3,100], "
    "series of <= 2 points. Outside: float rounding, pchip/linear interpolation of spending (not used by these methods)."
)
GROUP_TIMEOUT = {"quick": 1500, "thorough": 3000}
VMAX = 1e9


def _mods():
    import atomica.programs as ap
    import atomica.utils as au

    return ap, au


def _funcs():
    ap, au = _mods()
    return [ap.Program.get_capacity, ap.Program.get_prop_covered, ap.Program.get_spend, ap.ProgramSet.get_alloc, ap.ProgramSet.get_capacities, ap.ProgramSet.get_prop_coverage, ap.ProgramInstructions.__init__, au.TimeSeries.__init__, au.TimeSeries.insert, au.TimeSeries.interpolate, au.TimeSeries.get_arrays]


def _progset(ap, prog):
    import sciris as sc

    ps = ap.ProgramSet.__new__(ap.ProgramSet)
    ps.name = "ps"
    ps.programs = sc.odict()
    ps.programs[prog.name] = prog
    ps.covouts = sc.odict()
    return ps


def _program(env, ap, au, one_off, constraint, sat, u, K, a, spend=None):
    prog = ap.Program("P", target_pops=["pop"], target_comps=["c"])
    prog.unit_cost = au.TimeSeries(assumption=u, units="$/person" if one_off else "$/person/year")
    if constraint == "abs":
        prog.capacity_constraint = au.TimeSeries(assumption=K, units="people")
    elif constraint == "year":
        prog.capacity_constraint = au.TimeSeries(assumption=K, units="people/year")
    if sat:
        prog.saturation = au.TimeSeries(assumption=a, units="N.A.")
    if spend is not None:
        prog.spend_data = au.TimeSeries(assumption=spend, units="$/year")
    return prog


def coverage_body(one_off, constraint, sat):
    def body(env):
        ap, au = _mods()
        s1 = env.real("s1", 0, VMAX)
        s2 = env.real("s2", 0, VMAX)
        u1 = env.real("u1", 1e-6, VMAX)
        u2 = env.real("u2", 1e-6, VMAX)
        K = env.real("K", 0, VMAX)
        a = env.real("a", 1e-3, 100)
        e = env.real("e", 0, VMAX)
        dt = env.real("dt", 1.0 / 365, 5)
        t = 2020.0
        res = {}
        with env.installed(shim.patches_for(ap, au)):
            for tag, s, u in [("11", s1, u1), ("21", s2, u1), ("12", s1, u2)]:
                prog = _program(env, ap, au, one_off, constraint, sat, u, K, a)
                ps = _progset(ap, prog)
                cap = prog.get_capacity(tvec=env.array([t]) if False else [t], spending=env.array([s]), dt=dt)
                cov = ps.get_prop_coverage(tvec=[t], dt=dt, capacities={"P": cap}, num_eligible={"P": env.array([e])})["P"]
                res[tag] = (cap[0], cov[0])
            ax = shim.exp_axioms() if env.symbolic else ()
        cap11, c11 = res["11"]
        cap21, c21 = res["21"]
        cap12, c12 = res["12"]
        spend_step = s1 * dt if one_off else s1
        Kstep = (K * dt) if constraint == "year" else K
        env.claim("coverage_ge_0", env.ge(c11, 0.0, 0), key="bounds", extra_axioms=ax)
        env.claim("coverage_le_1", env.le(c11, 1.0, 0), key="bounds", extra_axioms=ax)
        env.claim("monotone_in_spending", env.le(c11, c21), under=env.b(s1 <= s2), key="monotone_spend", extra_axioms=ax)
        env.claim("monotone_in_unit_cost", env.le(c11, c12), under=env.b(u1 >= u2), key="monotone_unit_cost", extra_axioms=ax)
        # capacity is the documented conversion
        capspec = spend_step / u1
        if constraint:
            capspec = env.smin(capspec, Kstep)
        env.claim("capacity_is_spend_over_unit_cost_capped", env.eq(cap11, capspec), key="capacity_formula")
        if constraint:
            env.claim("covered_people_le_capacity_constraint", env.le(c11 * e, Kstep), key="constraint", extra_axioms=ax)
        if sat:
            env.claim("coverage_le_saturation", env.le(c11, a), key="saturation", extra_axioms=ax)
            env.claim("nobody_eligible_gives_saturation_level", env.eq(c11, env.smin(a, 1.0)), under=env.b(e == 0), key="eligible_zero", extra_axioms=ax)
            env.claim("covered_people_le_capacity", env.le(c11 * e, cap11), key="le_capacity", extra_axioms=ax)
        else:
            env.claim("coverage_is_capacity_over_eligible", env.eq(c11 * e, cap11), under=env.b(cap11 < e), key="cap_over_eligible")
            env.claim("capacity_at_or_above_eligible_gives_1", env.eq(c11, 1.0, 0), under=env.b(cap11 >= e), key="full_coverage")
            env.claim("nobody_eligible_gives_1", env.eq(c11, 1.0, 0), under=env.b(e == 0), key="eligible_zero")

    return body


def annual_body(constraint, steps):
    """One-off program: the per-step capacities over one year add up to spend/unit cost whatever the step"""

    def body(env):
        ap, au = _mods()
        s = env.real("s", 0, VMAX)
        u = env.real("u", 1e-6, VMAX)
        K = env.real("K", 0, VMAX)
        dt = 1.0 / steps
        tvec = [2020.0 + k * dt for k in range(steps)]
        with env.installed(shim.patches_for(ap, au)):
            prog = _program(env, ap, au, True, constraint, False, u, K, None)
            cap = prog.get_capacity(tvec=tvec, spending=env.array([s] * steps), dt=dt)
            tot = 0.0
            for k in range(steps):
                tot = tot + cap[k]
        spec = s / u
        if constraint == "year":
            spec = env.smin(spec, K)
        env.claim("annual_reach_independent_of_dt", env.eq(tot, spec), key="annual_reach")

    return body


def dated_body(one_off, constraint, dense=True):
    """Time-varying program book series (spending, unit cost, capacity constraint, saturation) are step functions: the value in
    force at t is the last dated value at or before t (the first value before the first date)"""

    def body(env):
        ap, au = _mods()
        dt = env.real("dt", 1.0 / 365, 5)
        e = env.real("e", 0, VMAX)
        dates = dict(spend=(2018.0, 2020.0), unit=(2018.25, 2020.0), K=(2019.0, 2021.0), sat=(2018.5, 2020.5))
        vals = dict(spend=(env.real("s0", 0, VMAX), env.real("s1", 0, VMAX)), unit=(env.real("u0", 1e-6, VMAX), env.real("u1", 1e-6, VMAX)), K=(env.real("K0", 0, VMAX), env.real("K1", 0, VMAX)), sat=(env.real("a0", 1e-3, 100), env.real("a1", 1e-3, 100)))
        tq = [2017.0, 2018.0, 2018.25, 2018.75, 2019.0, 2019.5, 2020.0, 2020.25, 2020.5, 2021.0, 2023.0] if dense else [2017.0, 2019.0, 2019.5, 2020.0, 2020.5, 2023.0]

        def in_force(name, t):
            return vals[name][1] if t >= dates[name][1] else vals[name][0]

        with env.installed(shim.patches_for(ap, au)):
            prog = ap.Program("P", target_pops=["pop"], target_comps=["c"])
            prog.unit_cost = au.TimeSeries(t=list(dates["unit"]), vals=list(vals["unit"]), units="$/person" if one_off else "$/person/year")
            prog.spend_data = au.TimeSeries(t=list(dates["spend"]), vals=list(vals["spend"]), units="$/year")
            prog.saturation = au.TimeSeries(t=list(dates["sat"]), vals=list(vals["sat"]), units="N.A.")
            if constraint:
                prog.capacity_constraint = au.TimeSeries(t=list(dates["K"]), vals=list(vals["K"]), units="people" if constraint == "abs" else "people/year")
            ps = _progset(ap, prog)
            instr = ap.ProgramInstructions(start_year=2016.0)
            alloc = ps.get_alloc(tq, instr)["P"]
            caps = ps.get_capacities(tq, dt, instr)
            cov = ps.get_prop_coverage(tq, dt, caps, {"P": env.array([e] * len(tq))}, instr)["P"]
            caps = caps["P"]
            ax = shim.exp_axioms() if env.symbolic else ()
        for k, t in enumerate(tq):
            sp, u, a = in_force("spend", t), in_force("unit", t), in_force("sat", t)
            env.claim("spending_in_force_t%d" % k, env.eq(alloc[k], sp, 0), key="stepped_spending")
            cp = sp * (dt if one_off else 1.0) / u
            if constraint:
                Kstep = in_force("K", t) * (dt if constraint == "year" else 1.0)
                cp = env.smin(cp, Kstep)
                env.claim("covered_le_constraint_in_force_t%d" % k, env.le(cov[k] * e, Kstep), key="stepped_constraint", extra_axioms=ax)
            env.claim("capacity_from_values_in_force_t%d" % k, env.eq(caps[k], cp), key="stepped_capacity")
            env.claim("coverage_le_saturation_in_force_t%d" % k, env.le(cov[k], a), key="stepped_saturation", extra_axioms=ax)
            env.claim("coverage_in_unit_interval_t%d" % k, env.ge(cov[k], 0.0, 0) & env.le(cov[k], 1.0, 0), key="bounds", extra_axioms=ax)
            env.claim("covered_le_capacity_t%d" % k, env.le(cov[k] * e, caps[k]), key="le_capacity", extra_axioms=ax)

    return body


def precedence_body(one_off, has_alloc, has_cap, has_cov, series):
    """Overwrite precedence through ProgramInstructions + ProgramSet.get_alloc/get_capacities/get_prop_coverage"""

    def body(env):
        ap, au = _mods()
        u = env.real("u", 1e-6, VMAX)
        sb = env.real("s_book", 0, VMAX)
        e = env.real("e", 0, VMAX)
        dt = env.real("dt", 1.0 / 365, 5)
        start = 2018.0
        tq = [2017.0, 2018.0, 2019.5, 2020.0, 2023.0]  # before the first point, on points, between, after

        def overwrite(nm, hi):
            if series:
                v0 = env.real(nm + "0", 0, hi)
                v1 = env.real(nm + "1", 0, hi)
                return ("ts", v0, v1)
            return ("scalar", env.real(nm, 0, hi), None)

        ow_a = overwrite("alloc", VMAX) if has_alloc else None
        ow_k = overwrite("capacity", VMAX) if has_cap else None
        ow_c = overwrite("coverage", 10) if has_cov else None
        with env.installed(shim.patches_for(ap, au)):

            def mk(ow):
                if ow is None:
                    return None
                if ow[0] == "ts":
                    ts = au.TimeSeries(t=[2018.0, 2020.0], vals=[ow[1], ow[2]])
                    return {"P": ts}
                return {"P": ow[1]}

            prog = _program(env, ap, au, one_off, None, False, u, None, None, spend=sb)
            ps = _progset(ap, prog)
            instr = ap.ProgramInstructions(start_year=start, alloc=mk(ow_a), capacity=mk(ow_k), coverage=mk(ow_c))
            alloc = ps.get_alloc(tq, instr)["P"]
            caps = ps.get_capacities(tq, dt, instr)
            cov = ps.get_prop_coverage(tq, dt, caps, {"P": env.array([e] * len(tq))}, instr)["P"]
            caps = caps["P"]

        def expected(ow, k):
            if ow[0] == "scalar":
                return ow[1]
            return ow[1] if tq[k] < 2020.0 else ow[2]

        for k in range(len(tq)):
            sp = expected(ow_a, k) if has_alloc else sb
            env.claim("spending_used_t%d" % k, env.eq(alloc[k], sp, 0), key="alloc_precedence")
            if has_cap:
                cp = expected(ow_k, k) * (dt if one_off else 1.0)
            else:
                cp = sp * (dt if one_off else 1.0) / u
            env.claim("capacity_used_t%d" % k, env.eq(caps[k], cp), key="capacity_precedence")
            if has_cov:
                cv = env.smin(expected(ow_c, k) * (dt if one_off else 1.0), 1.0)
                env.claim("coverage_used_t%d" % k, env.eq(cov[k], cv), key="coverage_precedence")
            else:
                env.claim("coverage_from_capacity_t%d" % k, env.eq(cov[k] * e, cp), under=env.b(cp < e), key="coverage_from_capacity")
                env.claim("coverage_full_t%d" % k, env.eq(cov[k], 1.0, 0), under=env.b(cp >= e), key="coverage_from_capacity")

    return body


def _specs(tier):
    specs = []
    for one_off in (True, False):
        for constraint in (None, "abs", "year"):
            for sat in (False, True):
                nm = "coverage[%s;constraint=%s;saturation=%s]" % ("one-off" if one_off else "continuous", constraint, sat)
                specs.append((nm, coverage_body, dict(one_off=one_off, constraint=constraint, sat=sat)))
    for constraint in (None, "year"):
        for steps in (1, 2, 4, 12):
            specs.append(("annual[constraint=%s;steps=%d]" % (constraint, steps), annual_body, dict(constraint=constraint, steps=steps)))
    for one_off in (True, False):
        for constraint in (None, "abs", "year"):
            if tier == "quick":
                if (one_off, constraint) in ((True, "year"), (False, "abs")):
                    specs.append(("dated[%s;constraint=%s;6 query times]" % ("one-off" if one_off else "continuous", constraint), dated_body, dict(one_off=one_off, constraint=constraint, dense=False)))
                continue
            specs.append(("dated[%s;constraint=%s]" % ("one-off" if one_off else "continuous", constraint), dated_body, dict(one_off=one_off, constraint=constraint)))
    combos = [(True, False, False), (False, True, False), (False, False, True), (True, True, False), (True, False, True), (True, True, True), (False, False, False)]
    for one_off in (True, False):
        for has_alloc, has_cap, has_cov in combos:
            for series in (False, True):
                if series and not (has_alloc or has_cap or has_cov):
                    continue
                if tier == "quick" and series and (has_alloc + has_cap + has_cov) == 2:
                    continue
                nm = "precedence[%s;alloc=%d;cap=%d;cov=%d;%s]" % ("one-off" if one_off else "continuous", has_alloc, has_cap, has_cov, "series" if series else "scalar")
                specs.append((nm, precedence_body, dict(one_off=one_off, has_alloc=has_alloc, has_cap=has_cap, has_cov=has_cov, series=series)))
    return specs


def _mk(name, body, bounds):
    def g(tier, seed):
        return run_body(body, name, tier, seed, functions=_funcs(), bounds=bounds, stubs=["numpy/scipy/sciris in atomica.programs and atomica.utils -> vsym shims; exp -> uninterpreted function with instantiated axioms (positivity, exp(0)=1, monotone, tangent, Pade bounds); float() in atomica.utils is the identity on proxies"], timeout_ms=120000)

    g.__name__ = name
    return g


def groups(tier):
    return [_mk(nm, fac(**kw), kw) for nm, fac, kw in _specs(tier)]


def replay(rec):
    for nm, fac, kw in _specs("thorough") + _specs("quick"):
        if nm == rec["replay"]["group"]:
            return replay_body(fac(**kw), rec["model"], rec["replay"]["claim"])
    return False, "unknown group"
