"""C05 -- see DESIGN.md §5 C05. Kernel-level groups (checks/kern.py); IEEE-mode groups in checks/fpgrid.py"""
from checks import kern, fpgrid, modelstep

TECHNIQUE = "symbolic execution of the real integration methods on z3-real proxies with state merging and cuts, plus IEEE-754 (QF_FP) execution of the real grid/keyring size code; SMT obligations (z3, cvc5 portfolio); counterexamples replayed on the unpatched code"
EXPLANATION = "Real TimedCompartment.resolve_outflows/update/connect/__setitem__, TimedLink and Model.update_links/update_comps on a timed star with 1-5 rows: flush link, ordinary outflow, duration-preserving outflow into a group member with equal/longer/shorter keyring, duration-preserving inflow, plain inflows. Obligations (one-step shift lemma for arbitrary outflow requests): row r at t+1 == row r+1 at t - its recorded outflows + duration-preserving inflow into that row; last row == plain inflows of the step; flush == what is left in row 0; no duration-preserving move leaves row 0; a single row empties every step; moves inside the group keep the row index, surplus rows collapse into the destination's last row. Bounds: micro-graphs as listed per group; |values| <= 1e9, dt in [1/365,5], timescales in [1e-3,1e3]; real arithmetic (tolerance 1e-9 relative, 1e-8 for C03). Outside: larger fan-outs, float rounding, multi-step interactions other than through the arbitrary pre-state."
GROUP_TIMEOUT = {"quick": 1800, "thorough": 3600}


def groups(tier):
    return kern.kernel_groups("C05", tier) + modelstep.groups("C05", tier) + fpgrid.c05_fp_groups(tier)


def replay(rec):
    if rec["replay"].get("group") in ("grid", "keyring"):
        return fpgrid.fp_replay(rec)
    if rec["replay"].get("group", "").startswith(("model[", "wiring[", "init_spread[")):
        return modelstep.replay("C05", rec)
    return kern.kernel_replay("C05", rec)
