"""C02 -- see DESIGN.md §5 C02. Kernel-level groups (checks/kern.py); model-level groups are added in checks/modelstep.py"""
from checks import kern, modelstep

TECHNIQUE = "symbolic execution of the real integration methods (Model.update_links/update_comps/flush_junctions and the Compartment/Junction/Timed kernels) on z3-real proxies with state merging and cuts; SMT obligations (z3, cvc5 portfolio); counterexamples replayed on the unpatched code"
EXPLANATION = 'Same real step as C01; obligations: every recorded flow >= 0, sum of outflows <= stock (per row for timed compartments), pairwise ratio preservation flow_i*request_j == flow_j*request_i (common scale factor; per row), a parameter value <= 0 gives zero flow, junction flows >= 0 for proportions of any sign, next stocks/rows >= 0. Bounds: micro-graphs as listed per group; |values| <= 1e9, dt in [1/365,5], timescales in [1e-3,1e3]; real arithmetic (tolerance 1e-9 relative, 1e-8 for C03). Outside: larger fan-outs, float rounding, multi-step interactions other than through the arbitrary pre-state.'
GROUP_TIMEOUT = {"quick": 1800, "thorough": 3600}


def groups(tier):
    return kern.kernel_groups("C02", tier) + modelstep.groups("C02", tier)


def replay(rec):
    if rec["replay"].get("group", "").startswith(("model[", "wiring[", "init_spread[")):
        return modelstep.replay("C02", rec)
    return kern.kernel_replay("C02", rec)
