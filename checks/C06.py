"""
C06 -- parameter values follow data x calibration -> function -> program -> limits.

The real Model.build (parameter initialisation loop, interpolation, scale factors, precompute), Model.process
(update_pars in dependency order, constrain, post-compute) and ParameterScenario.get_parset are executed on symbolic
databook values / calibration factors / stocks; every parameter value at every time index is compared with an independent
specification evaluated by the harness (its own interpolation, its own function evaluator, its own clipping).
"""

import ast as real_ast
import copy
import numpy as np
from vsym import modelrun as mr, gen, shim
from vsym.env import run_body, replay_body
from checks.modelstep import Hooks, project

TECHNIQUE = "symbolic execution of the real Model.build/process/update_pars, Parameter.update/constrain, parameters.Parameter.interpolate, TimeSeries.interpolate and ParameterScenario.get_parset on z3-real proxies; per (parameter, population, time index) equality obligations against an independent specification; SMT (z3, cvc5 portfolio); counterexamples replayed on the unpatched code"
EXPLANATION = (
    "Structures: generated micro-models M10 (function parameters: chain and diamond of dependencies on data parameters, a characteristic with denominator, time; limits of every kind), M2 and M12 (data parameters of every unit type), "
    "M11 (cross-population aggregation with interaction weights and a weighting variable), with sparse data patterns {assumption only, one year, two years inside the simulation range, years outside the range, three years}, symbolic values, "
    "symbolic per-population and all-population calibration factors, and parameter scenarios (linear / previous) on a data parameter and on a function parameter with the first overwrite on and off the time grid. "
    "Obligation, for every parameter, population and time index of the finished run: stored value == clip(scenario window ? interpolated scenario series : function ? f(same-step values of dependencies, themselves specified values) : interp(data) * y_factor * meta_y_factor), "
    "with interpolation exact at entered years, linear in between, constant outside. Stocks are cut after each step (fresh non-negative variables), so each index is checked from an arbitrary state. "
    "Bounds: <= 7 parameters, <= 3 data years, T <= 4 time points, dt = 0.25; values in unit ranges, factors in [0.1,10]. Outside: derivative parameters, pchip smoothing, float rounding."
)
GROUP_TIMEOUT = {"quick": 1800, "thorough": 3600}

PATTERNS = {
    "assumption": None,
    "one_year": [2000.25],
    "two_inside": [2000.0, 2000.5],
    "outside": [1990.0, 2010.0],
    "three": [1999.0, 2000.25, 2000.6],
    "before": [1995.0, 1998.0],
}


def interp_spec(env, t_data, v_data, t):
    """Independent linear interpolation with constant extrapolation (exact at entered years)"""
    if len(t_data) == 1:
        return v_data[0]
    if t <= t_data[0]:
        return v_data[0]
    if t >= t_data[-1]:
        return v_data[-1]
    for k in range(len(t_data) - 1):
        if t_data[k] <= t <= t_data[k + 1]:
            if t == t_data[k]:
                return v_data[k]
            if t == t_data[k + 1]:
                return v_data[k + 1]
            w = (t - t_data[k]) / (t_data[k + 1] - t_data[k])
            return v_data[k] + (v_data[k + 1] - v_data[k]) * w
    raise AssertionError


def previous_spec(t_data, v_data, t):
    if t < t_data[0]:
        return v_data[0]
    r = v_data[0]
    for tk, vk in zip(t_data, v_data):
        if tk <= t:
            r = vk
    return r


def clip_spec(env, v, lo, hi):
    if lo is not None and np.isfinite(lo):
        v = env.smax(v, float(lo))
    if hi is not None and np.isfinite(hi):
        v = env.smin(v, float(hi))
    return v


def eval_fn(env, src, vals):
    """Independent evaluator for framework function strings (arithmetic, max/min/exp, safe division)"""
    tree = real_ast.parse(src.replace(":", "___"), mode="eval")
    A = real_ast

    def where(c, a, b):
        if env.symbolic:
            from vsym.core import where as w

            return w(c, a, b)
        return a if c else b

    def sdiv(l, r):
        from vsym.core import is_sym

        if is_sym(l):
            return where(l == 0, 0.0, l / r)
        if l == 0:
            return 0.0
        return l / r

    def ev(n):
        if isinstance(n, A.Expression):
            return ev(n.body)
        if isinstance(n, A.Constant):
            return n.value
        if isinstance(n, A.Name):
            return vals[n.id]
        if isinstance(n, A.UnaryOp):
            return -ev(n.operand)
        if isinstance(n, A.BinOp):
            l, r = ev(n.left), ev(n.right)
            if isinstance(n.op, A.Add):
                return l + r
            if isinstance(n.op, A.Sub):
                return l - r
            if isinstance(n.op, A.Mult):
                return l * r
            if isinstance(n.op, A.Div):
                return sdiv(l, r)
            if isinstance(n.op, A.Pow) and isinstance(n.right, A.Constant) and n.right.value == 2:
                return l * l
        if isinstance(n, A.Call):
            args = [ev(a) for a in n.args]
            if n.func.id == "max":
                r = args[0]
                for x in args[1:]:
                    r = env.smax(r, x)
                return r
            if n.func.id == "min":
                r = args[0]
                for x in args[1:]:
                    r = env.smin(r, x)
                return r
            if n.func.id == "exp":
                return shim.sexp(args[0])
        raise NotImplementedError(real_ast.dump(n))

    return ev(tree)


def charac_spec(env, am, ch, ti):
    """Characteristic = sum of members / denominator, 0 when the numerator is below 1e-6 (0/0 = 0)"""
    num = 0.0
    for inc in ch.includes:
        num = num + (charac_spec(env, am, inc, ti) if isinstance(inc, am.Characteristic) else mr.comp_val(am, inc, ti))
    if ch.denominator is None:
        return num
    den = charac_spec(env, am, ch.denominator, ti) if isinstance(ch.denominator, am.Characteristic) else mr.comp_val(am, ch.denominator, ti)
    if env.symbolic:
        from vsym.core import where, is_sym

        if is_sym(num) or is_sym(den):
            return where(den > 0, num / den, 0.0)  # the branch num >= 1e-6 and den <= 0 (inf) is excluded by a finiteness obligation
    return num / den if den > 0 else 0.0


def transfer_body(units, T=3):
    """Transfers between populations are data parameters per (source, destination) pair: value = entered value x y-factor x
    meta y-factor, clipped to [0, inf) (durations to [1e-6, inf)), in the units entered, one link per ordinary compartment"""

    def body(env):
        am, ap, au, apar, afp = mr.modules()
        from checks.modelstep import project as mproject

        P = mproject("M1", T, 0.25, pops=2, transfers=1, transfer_units=units)
        ps = copy.deepcopy(P.parsets[0])
        spec = {}
        with mr.session(env):
            for tname, tr in ps.transfers.items():
                for src, par in tr.items():
                    par.meta_y_factor = env.real("myf|%s|%s" % (tname, src), 0.1, 10.0)
                    for dst, ts in par.ts.items():
                        lo, hi = mr._rng(units)
                        ts.assumption = env.real("transfer|%s|%s>%s" % (tname, src, dst), 0.0 if units != "duration" else -1.0, hi)
                        par.y_factor[dst] = env.real("yf|%s|%s>%s" % (tname, src, dst), 0.1, 10.0)
                        spec["%s_%s_to_%s" % (tname, src, dst)] = (src, dst, env.smax(ts.assumption * par.y_factor[dst] * par.meta_y_factor, 1e-6 if units == "duration" else 0.0))
            m = am.Model(P.settings, P.framework, ps)
            found = set()
            for pop in m.pops:
                for par in pop.pars:
                    if par.name in spec:
                        src, dst, v = spec[par.name]
                        found.add(par.name)
                        env.claim("transfer_parameter_lives_in_source_population|%s" % par.name, env.true(pop.name == src), key="transfer_structure")
                        env.claim("transfer_units|%s" % par.name, env.true(par.units == units), key="transfer_structure")
                        for ti in range(len(m.t)):
                            env.claim("transfer_value|%s|t%d" % (par.name, ti), env.eq(par.vals[ti], v), key="transfer_value")
                        ordinary = [c.name for c in pop.comps if not isinstance(c, (am.SourceCompartment, am.SinkCompartment, am.JunctionCompartment))]
                        linked = sorted((l.source.name, l.dest.name, l.dest.pop.name) for l in par.links)
                        env.claim("transfer_links_like_to_like|%s" % par.name, env.true(linked == sorted((c, c, dst) for c in ordinary)), key="transfer_structure", meta=dict(links=linked))
            env.claim("every_entered_transfer_has_a_parameter", env.true(found == set(spec)), key="transfer_structure")

    return body


def body_factory(name, pattern, scenario=None, y_factors=True, T=3, copy_first=None):
    def body(env):
        am, ap, au, apar, afp = mr.modules()
        import atomica.scenarios as ascn

        P = project(name, T, 0.25, pops=2 if name == "M11" else 1)
        F = P.framework
        ps = copy.deepcopy(P.parsets[0])
        years = PATTERNS[pattern]
        nn = lambda v: env.ge(v, 0.0, 0)
        data = {}  # (par, pop) -> (times or None, values, yf, myf)
        with mr.session(env, outline_pars=(name == "M11")), env.installed(shim.patches_for(ascn)):
            for pname, par in ps.pars.items():
                if pname not in F.pars.index or F.pars.at[pname, "timed"] == "y":
                    continue
                for pop, ts in par.ts.items():
                    if not ts.has_data:
                        continue
                    lo, hi = mr._rng(ts.units)
                    if years is None:
                        ts.t, ts.vals = [], []
                        ts.assumption = env.real("%s|%s" % (pname, pop), lo, hi)
                        vals = [ts.assumption]
                    else:
                        ts.assumption = None
                        ts.t = list(years)
                        ts.vals = [env.real("%s|%s@%g" % (pname, pop, t), lo, hi) for t in years]
                        vals = list(ts.vals)
                    yf = myf = 1.0
                    data[(pname, pop)] = [years, vals, 1.0, 1.0]
                if y_factors and any((pname, pop) in data for pop in par.ts):
                    myf = env.real("myf|%s" % pname, 0.1, 10.0)
                    par.meta_y_factor = myf
                    for pop in list(par.y_factor.keys()):
                        if (pname, pop) in data:
                            par.y_factor[pop] = env.real("yf|%s|%s" % (pname, pop), 0.1, 10.0)
                            data[(pname, pop)][2] = par.y_factor[pop]
                            data[(pname, pop)][3] = myf
            if name == "M11":
                # interaction weights symbolic
                for iname, weights in ps.interactions.items():
                    for frm, ipar in weights.items():
                        for to, ts in ipar.ts.items():
                            ts.assumption = env.real("w|%s|%s|%s" % (iname, frm, to), 0.0, 10.0)
            scen = None
            if scenario:
                spar, spop, st, sy, method = scenario
                sy = [env.real("scen|%s@%g" % (spar, t), 0.0, 1.0) for t in st] if sy is None else sy
                scen = ascn.ParameterScenario(name="s", interpolation=method)
                scen.scenario_values[spar] = {spop: {"t": list(st), "y": env.array(sy) if env.symbolic else np.array([float(v) for v in sy])}}
                ps_run = scen.get_parset(ps, P)
            else:
                ps_run = ps
            m0 = am.Model(P.settings, F, P.parsets[0])
            ps_run.initialization = mr.symbolic_state(env, m0)

            def post_comps(model):
                if not env.cutting:
                    return
                ti = model._t_index
                for pop in model.pops:
                    for c in pop.comps:
                        if isinstance(c, (am.SourceCompartment, am.JunctionCompartment, am.TimedCompartment)):
                            continue
                        c.vals[ti] = env.cut(c.vals[ti], "x%d|%s|%s" % (ti, c.name, pop.name), [nn])

            m = mr.build_model(env, P.settings, F, ps_run)
            if copy_first:
                # the documented build once / copy / process pattern: the copy (and the original it was taken from) must still
                # evaluate every function
                import pickle

                m = copy.deepcopy(m) if copy_first == "deepcopy" else pickle.loads(pickle.dumps(m))
                if env.symbolic:
                    env.heap(mr.all_vars(m) + [m])
            with Hooks(am, post=dict(update_comps=post_comps)):
                m.process()
            ax = shim.exp_axioms() if env.symbolic else ()

        # ------------------------------------------------------------------ specification
        tvec = [float(t) for t in m.t]
        order = [p for p in F.pars.index]  # framework order (dependencies are defined above their dependants)
        for ti, t in enumerate(tvec):
            spec = {}
            # cross-population aggregations need the aggregated variable in every population first: two passes over pops per parameter
            for pname in order:
                fcn = F.pars.at[pname, "function"]
                lo, hi = F.pars.at[pname, "minimum value"], F.pars.at[pname, "maximum value"]
                for pop in m.pops:
                    if pname not in pop.par_lookup:
                        continue
                    mp = pop.par_lookup[pname]
                    in_scen = scenario is not None and scenario[0] == pname and scenario[1] == pop.name and t >= min(scenario[2])
                    if in_scen:
                        st, method = scenario[2], scenario[4]
                        sy_vals = sy
                        if method == "previous":
                            v = previous_spec(list(st), list(sy_vals), t)
                        else:
                            v = interp_spec(env, list(st), list(sy_vals), t)
                        v = v * (data[(pname, pop.name)][2] * data[(pname, pop.name)][3] if (pname, pop.name) in data else 1.0)
                    elif isinstance(fcn, str) and fcn.strip():
                        uses_flow = False
                        if fcn.startswith(("SRC_POP_AVG", "TGT_POP_AVG", "SRC_POP_SUM", "TGT_POP_SUM")):
                            v = aggregation_spec(env, am, m, ps, fcn, pop, spec, ti)
                        else:
                            vals = {}
                            for dep in {n.id for n in real_ast.walk(real_ast.parse(fcn.replace(":", "___"), mode="eval")) if isinstance(n, real_ast.Name)}:
                                if dep == "t":
                                    vals[dep] = t
                                elif dep == "dt":
                                    vals[dep] = m.dt
                                elif dep in pop.par_lookup:
                                    vals[dep] = spec[(dep, pop.name)]
                                elif dep in pop.comp_lookup:
                                    vals[dep] = mr.comp_val(am, pop.comp_lookup[dep], ti)
                                elif dep in pop.charac_lookup:
                                    vals[dep] = charac_spec(env, am, pop.charac_lookup[dep], ti)
                                elif "___" in dep:
                                    # flow reference par:flow / src:dst / :dst / src: -> annualised sum over every matching link of the population
                                    a, b = dep.split("___")
                                    tot = 0.0
                                    for l in pop.links:
                                        if (b == "flow" and l.parameter is not None and l.parameter.name == a) or (b != "flow" and (a == "" or l.source.name == a) and (b == "" or l.dest.name == b)):
                                            tot = tot + mr.link_val(am, l, ti) / m.dt
                                    vals[dep] = tot
                                    uses_flow = True
                                elif dep in afp.supported_functions:
                                    continue
                                else:
                                    raise NotImplementedError(dep)
                            v = eval_fn(env, fcn, vals)
                    elif (pname, pop.name) in data:
                        yrs, vals_, yf, myf = data[(pname, pop.name)]
                        if scenario is not None and scenario[0] == pname and scenario[1] == pop.name:
                            # before the first overwrite the scenario parset holds the baseline values pre-interpolated onto the grid
                            pass
                        base = vals_[0] if yrs is None else interp_spec(env, list(yrs), vals_, t)
                        v = base * yf * myf
                    else:
                        continue
                    v = clip_spec(env, v, lo, hi)
                    spec[(pname, pop.name)] = v
                    if isinstance(fcn, str) and fcn.strip() and not in_scen and uses_flow and ti == len(tvec) - 1:
                        continue  # no flows are computed at the last time index
                    env.claim("value|%s|%s|t%d" % (pname, pop.name, ti), env.eq(mp.vals[ti], v), key="par_value[%s]" % pname, extra_axioms=ax)
        for k, g in enumerate(env.nonfinite_guards()):
            env.assume(~g if env.symbolic else True, "characteristic with zero denominator and non-zero numerator excluded (finiteness, C02/C07)") if False else None

    return body


def aggregation_spec(env, am, m, ps, fcn, pop, spec, ti):
    """SRC/TGT_POP_AVG/SUM(par, interaction, weight): documented weighted aggregation over populations"""
    special, rest = fcn.split("(")
    args = [x.strip() for x in rest.rstrip(")").split(",")]
    var = args[0]
    pops = [p for p in m.pops]
    names = [p.name for p in pops]

    def val(p):
        if var in p.par_lookup:
            return spec[(var, p.name)]
        if var in p.comp_lookup:
            return mr.comp_val(am, p.comp_lookup[var], ti)
        from checks.C06 import charac_spec as cs

        return cs(env, am, p.charac_lookup[var], ti)

    W = {}
    for a in names:
        for b in names:
            w = 1.0
            if len(args) >= 2:
                ipar = ps.interactions[args[1]]
                # weights[from][to]
                w = ipar[a].ts[b].assumption if (a in ipar and b in ipar[a].ts) else 0.0
            W[(a, b)] = w
    me = pop.name
    terms = []
    for other in pops:
        w = W[(other.name, me)] if special.startswith("SRC") else W[(me, other.name)]
        if len(args) == 3:
            wv = args[2]
            wval = mr.comp_val(am, other.comp_lookup[wv], ti) if wv in other.comp_lookup else charac_spec(env, am, other.charac_lookup[wv], ti)
            w = w * wval
        terms.append((w, val(other)))
    num = 0.0
    den = 0.0
    for w, v in terms:
        num = num + w * v
        den = den + w
    if special.endswith("SUM"):
        return num
    if env.symbolic:
        from vsym.core import where, is_sym

        if is_sym(den):
            return where(den == 0, num, num / den)
    return num if den == 0 else num / den


def M11():
    """two populations, cross-population aggregation with interaction weights and a weighting variable"""
    return dict(
        name="M11",
        comps=[dict(name="sus", default=900), dict(name="inf", default=100)],
        characs=[dict(name="alive", components="sus,inf", setup=False), dict(name="prev", components="inf", denominator="alive", setup=False)],
        interactions=["w"],
        pars=[
            dict(name="beta", format="probability", default=0.5, databook=True),
            dict(name="foi_out", format="probability", function="beta*prev"),
            dict(name="foi_in", format="probability", function="SRC_POP_AVG(foi_out,w,alive)"),
            dict(name="foi_sum", format="probability", function="TGT_POP_SUM(foi_out,w)"),
            dict(name="rec", format="rate", default=0.3),
        ],
        transitions={("sus", "inf"): "foi_in", ("inf", "sus"): "rec"},
    )


gen.CATALOGUE["M11"] = M11


def _funcs():
    am, ap, au, apar, afp = mr.modules()
    import atomica.scenarios as ascn

    return [am.Model.build, am.Model.process, am.Model.update_pars, am.Model._set_exec_order, am.Parameter.update, am.Parameter.constrain, am.Parameter.set_dynamic, am.Characteristic.update, apar.Parameter.interpolate, apar.Parameter.smooth, au.TimeSeries.interpolate, au.TimeSeries.insert, ascn.ParameterScenario.get_parset, afp.parse_function]


def specs(tier):
    out = []
    pats = ["assumption", "two_inside", "outside", "three"] if tier == "quick" else list(PATTERNS)
    for pat in pats:
        out.append(("pipeline[M10;%s]" % pat, dict(name="M10", pattern=pat)))
    out.append(("pipeline[M10;assumption;model pickled before the run]", dict(name="M10", pattern="assumption", copy_first="pickle")))
    if tier != "quick":
        out.append(("pipeline[M10;assumption;model deep-copied before the run]", dict(name="M10", pattern="assumption", copy_first="deepcopy")))
    out.append(("pipeline[M2;three]", dict(name="M2", pattern="three")))
    out.append(("pipeline[M12;two_inside]", dict(name="M12", pattern="two_inside")))
    out.append(("pipeline[M11;assumption]", dict(name="M11", pattern="assumption")))
    out.append(("pipeline[M10F;assumption;functions of flows]", dict(name="M10F", pattern="assumption")))
    if tier != "quick":
        out.append(("pipeline[M11;two_inside]", dict(name="M11", pattern="two_inside")))
        out.append(("pipeline[M10;one_year;T=4]", dict(name="M10", pattern="one_year", T=4)))
    # scenarios: (parameter, population, times, values(None = symbolic), interpolation)
    for method in ("linear", "previous"):
        for tag, st in (("ongrid", [2000.25, 2000.5]), ("offgrid", [2000.3, 2000.45])):
            out.append(("scenario[M10;foi;%s;%s]" % (method, tag), dict(name="M10", pattern="assumption", scenario=("foi", "pop_0", st, None, method))))
            if tier != "quick" or method == "linear":
                out.append(("scenario[M10;beta;%s;%s]" % (method, tag), dict(name="M10", pattern="two_inside", scenario=("beta", "pop_0", st, None, method))))
        # precomputed function parameter (base: function of data parameters only) and output-only function parameter (foi2)
        out.append(("scenario[M10;base(precomputed);%s;ongrid]" % method, dict(name="M10", pattern="assumption", scenario=("base", "pop_0", [2000.25, 2000.5], None, method))))
        out.append(("scenario[M10;foi2(output only);%s;offgrid]" % method, dict(name="M10", pattern="assumption", scenario=("foi2", "pop_0", [2000.3, 2000.45], None, method))))
    return out


TRANSFER_UNITS = ("probability", "rate", "number", "duration")


def groups(tier):
    gs = []
    for nm, kw in specs(tier) + [("transfer[%s]" % u, dict(transfer_units=u)) for u in TRANSFER_UNITS]:
        body = transfer_body(kw["transfer_units"]) if "transfer_units" in kw else body_factory(**kw)

        def g(tier_, seed, _b=body, _nm=nm, _kw=kw):
            return run_body(_b, _nm, tier_, seed, functions=_funcs(), bounds=dict(_kw, dt=0.25), stubs=["numpy/scipy/sciris/math in atomica.model, parameters, utils, scenarios, function_parser -> vsym shims (np.interp piecewise-linear, interp1d(previous) step, np.clip If-terms)", "stocks cut to fresh non-negative variables after each Model.update_comps"], timeout_ms=120000)

        g.__name__ = nm
        gs.append(g)
    return gs


def replay(rec):
    for u in TRANSFER_UNITS:
        if rec["replay"]["group"] == "transfer[%s]" % u:
            return replay_body(transfer_body(u), rec["model"], rec["replay"]["claim"])
    for nm, kw in specs("thorough") + specs("quick"):
        if nm == rec["replay"]["group"]:
            return replay_body(body_factory(**kw), rec["model"], rec["replay"]["claim"])
    return False, "unknown group"
