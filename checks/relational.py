"""
Relational groups (two symbolic runs of the real Model.build/process compared output by output) for
C09 (no effect before the start year, end-year extension), C10 (restart from a saved state) and C08 (copies behave alike,
inputs untouched).  Equality is decided by z3 term identity where the two runs built the same term (unchanged code: no solver
call) and by the solver otherwise.
"""

import copy
import pickle
import numpy as np
from vsym import modelrun as mr, gen, shim
from vsym.env import run_body, replay_body
from checks.modelstep import project
from checks import C13 as c13


def outputs(am, model):
    """{(kind, pop, name, extra): array-like over time} for compartments (rows for timed), links, parameters, characteristics"""
    out = {}
    for pop in model.pops:
        for c in pop.comps:
            if isinstance(c, am.TimedCompartment):
                for r in range(c._vals.shape[0]):
                    out[("comp", pop.name, c.name, "row%d" % r)] = c._vals[r, :]
            else:
                out[("comp", pop.name, c.name, "")] = c.vals
        for l in pop.links:
            if isinstance(l, am.TimedLink):
                for r in range(l._vals.shape[0]):
                    out[("link", pop.name, "%s>%s>%s" % (l.source.name, l.dest.name, l.dest.pop.name), "row%d" % r)] = l._vals[r, :]
            else:
                out[("link", pop.name, "%s>%s>%s|%s" % (l.source.name, l.dest.name, l.dest.pop.name, l.parameter.name if l.parameter is not None else "-"), "")] = l.vals
        for p in pop.pars:
            if p.vals is not None:
                out[("par", pop.name, p.name, "")] = p.vals
        for ch in pop.characs:
            # characteristics with a denominator are a function of the (compared) stocks: that function is the subject of C07;
            # evaluating the vectorised property here would fork per element
            if ch.denominator is None and all(inc.denominator is None for inc in ch.includes if isinstance(inc, am.Characteristic)):
                out[("charac", pop.name, ch.name, "")] = ch.vals
    return out


def compare(env, am, A, B, pairs, label, key):
    """pairs: list of (index in A, index in B). Claims equality of every output of the two finished models at those indices"""
    oa, ob = outputs(am, A), outputs(am, B)
    if set(oa) != set(ob):
        env.claim("%s|same_outputs_exist" % label, env.true(False), key=key)
        return
    for k in sorted(oa):
        conds = []
        for ia, ib in pairs:
            conds.append(env.same(oa[k][ia], ob[k][ib]))
        if conds:
            env.claim("%s|%s" % (label, "|".join(str(x) for x in k if x != "")), env.all(conds), key="%s[%s]" % (key, k[0]))


class Lockstep:
    """
    Step-wise relational comparison.  Run A: after every Model.update_comps the new stocks (rows) are recorded and cut to
    fresh non-negative variables.  Run B: after every update_comps the new stocks are *claimed equal* to what run A computed at
    the matching index (one-step terms over the shared cut variables) and then replaced by A's cut variables, so that both
    runs continue from literally the same state.  All other outputs (flows, parameters, characteristics) are then one-step
    terms over shared variables and are compared at the end.
    """

    def __init__(self, env, am, tag=""):
        self.env, self.am, self.tag = env, am, tag
        self.rec = {}

    def _stocks(self, model, ti):
        am = self.am
        for pop in model.pops:
            for c in pop.comps:
                if isinstance(c, (am.SourceCompartment, am.JunctionCompartment)):
                    continue
                if isinstance(c, am.TimedCompartment):
                    for r in range(c._vals.shape[0]):
                        yield (pop.name, c.name, r), c._vals, (r, ti)
                else:
                    yield (pop.name, c.name, None), c.vals, ti

    def hooks_A(self):
        env = self.env

        def post_comps(model):
            ti = model._t_index
            for key, arr, idx in self._stocks(model, ti):
                real = arr[idx]
                cv = env.cut(real, "s%s|%s|%s|%s|%d" % (self.tag, key[0], key[1], key[2], ti), [lambda v: env.ge(v, 0.0, 0)]) if env.cutting else real
                self.rec[(key, ti)] = (real, cv)
                if env.cutting:
                    arr[idx] = cv

        return dict(update_comps=post_comps)

    def hooks_B(self, offset, limit, label, key):
        """B's index i corresponds to A's index i+offset; only A-indices < limit are compared (None = all)"""
        env = self.env

        def post_comps(model):
            ti = model._t_index
            ta = ti + offset
            if limit is not None and ta >= limit:
                return
            conds = []
            for k, arr, idx in self._stocks(model, ti):
                if (k, ta) not in self.rec:
                    continue
                real_a, cv = self.rec[(k, ta)]
                conds.append(env.same(arr[idx], real_a))
                if env.cutting:
                    arr[idx] = cv
            env.claim("%s|stocks|index%d" % (label, ta), env.all(conds), key="%s[comp]" % key)

        return dict(update_comps=post_comps)


def compare_rest(env, am, A, B, pairs, label, key):
    """Flows, parameters and characteristics of the two finished runs at the given index pairs (stocks were compared step by step)"""
    oa, ob = outputs(am, A), outputs(am, B)
    if set(oa) != set(ob):
        env.claim("%s|same_outputs_exist" % label, env.true(False), key=key)
        return
    for k in sorted(oa):
        conds = [env.same(oa[k][ia], ob[k][ib]) for ia, ib in pairs]
        if conds:
            env.claim("%s|%s" % (label, "|".join(str(x) for x in k if x != "")), env.all(conds), key="%s[%s]" % (key, k[0]))


def run_pair(env, am, buildA, buildB, offset, limit, label, key, npoints=None):
    """Build and process A (recording) then B (lockstep); returns (A, B)"""
    from checks.modelstep import Hooks

    ls = Lockstep(env, am)
    A = buildA()
    with Hooks(am, post=ls.hooks_A()):
        A.process()
    B = buildB(A)
    with Hooks(am, post=ls.hooks_B(offset, limit, label, key)):
        B.process()
    return A, B


def _session(env):
    import atomica.results as ares
    import atomica.scenarios as ascn
    from vsym.core import merged

    am, ap, au, apar, afp = mr.modules()
    extra = shim.patches_for(ares, ascn) + ([(ap.Covout, "get_outcome", merged(ap.Covout.__dict__["get_outcome"], name="Covout.get_outcome"))] if env.symbolic else [])
    return mr.session(env, outline_pars=True), env.installed(extra)


# ---------------------------------------------------------------------------------------------------------------
# C09
# ---------------------------------------------------------------------------------------------------------------


def c09_program_start(Y, interaction="additive", T=5):
    """Run without programs vs run with programs starting at Y: identical strictly before Y"""

    def body(env):
        am, ap, au, apar, afp = mr.modules()
        P = project("M12", T, 0.25)
        F = P.framework
        s1, s2 = _session(env)
        with s1, s2:
            parset = copy.deepcopy(P.parsets[0])
            mr.symbolize_parset(env, parset, F, comps=False)
            m0 = am.Model(P.settings, F, P.parsets[0])
            parset.initialization = mr.symbolic_state(env, m0)
            progset, psym, outcomes = c13.make_progset(env, P, interaction, list(parset.pop_names))
            tv = [float(t) for t in P.settings.tvec]
            limit = len([t for t in tv if t < Y])
            A, B = run_pair(env, am, lambda: mr.build_model(env, P.settings, F, parset), lambda A_: mr.build_model(env, P.settings, F, parset, progset, ap.ProgramInstructions(start_year=Y)), 0, limit, "before_program_start", "program_start")
            compare_rest(env, am, A, B, [(i, i) for i in range(limit)], "before_program_start", "program_start")

    return body


def c09_overwrite(kind, Y, first_point_after_start=False, T=5, first_point_before_start=False):
    """Same instructions except for a change dated Y in a stepped series that also states the earlier value"""

    def body(env):
        am, ap, au, apar, afp = mr.modules()
        P = project("M12", T, 0.25)
        F = P.framework
        s1, s2 = _session(env)
        with s1, s2:
            parset = copy.deepcopy(P.parsets[0])
            mr.symbolize_parset(env, parset, F, comps=False)
            m0 = am.Model(P.settings, F, P.parsets[0])
            parset.initialization = mr.symbolic_state(env, m0)
            progset, psym, outcomes = c13.make_progset(env, P, "additive", list(parset.pop_names))
            prog = {"alloc": "Ptest", "capacity": "Ptreat", "coverage": "Ploss1"}[kind]
            hi = 2.0 if kind == "coverage" else 1e6
            v0 = env.real("series_v0", 0, hi)
            v1 = env.real("series_v1", 0, hi)
            t0 = 2000.25 if first_point_after_start else 2000.0
            start_year = 2000.0
            if first_point_before_start:
                # the series straddles the program start year without a point on it
                t0, start_year = 2000.0, 2000.25
            tsA = au.TimeSeries(t=[t0], vals=[v0])
            tsB = au.TimeSeries(t=[t0, Y], vals=[v0, v1])
            tv = [float(t) for t in P.settings.tvec]
            limit = len([t for t in tv if t < Y])
            A, B = run_pair(env, am, lambda: mr.build_model(env, P.settings, F, parset, progset, ap.ProgramInstructions(start_year=start_year, **{kind: {prog: tsA}})), lambda A_: mr.build_model(env, P.settings, F, parset, progset, ap.ProgramInstructions(start_year=start_year, **{kind: {prog: tsB}})), 0, limit, "before_%s_change" % kind, "overwrite_%s" % kind)
            compare_rest(env, am, A, B, [(i, i) for i in range(limit)], "before_%s_change" % kind, "overwrite_%s" % kind)

    return body


def c09_scenario(par, Y, method, T=5):
    """Parameter scenario whose first overwrite is at Y (data parameter or function parameter) vs the baseline parset"""

    def body(env):
        import atomica.scenarios as ascn

        am, ap, au, apar, afp = mr.modules()
        P = project("M10", T, 0.25)
        F = P.framework
        s1, s2 = _session(env)
        with s1, s2:
            parset = copy.deepcopy(P.parsets[0])
            mr.symbolize_parset(env, parset, F, comps=False)
            m0 = am.Model(P.settings, F, P.parsets[0])
            parset.initialization = mr.symbolic_state(env, m0)
            sy = [env.real("scen_y0", 0, 1), env.real("scen_y1", 0, 1)]
            scen = ascn.ParameterScenario(name="s", interpolation=method)
            scen.scenario_values[par] = {"pop_0": {"t": [Y, Y + 0.3], "y": env.array(sy) if env.symbolic else np.array([float(v) for v in sy])}}
            ps2 = scen.get_parset(parset, P)
            tv = [float(t) for t in P.settings.tvec]
            limit = len([t for t in tv if t < Y])
            A, B = run_pair(env, am, lambda: mr.build_model(env, P.settings, F, parset), lambda A_: mr.build_model(env, P.settings, F, ps2), 0, limit, "before_scenario_start", "scenario[%s;%s]" % (par, method))
            compare_rest(env, am, A, B, [(i, i) for i in range(limit)], "before_scenario_start", "scenario[%s;%s]" % (par, method))

    return body


def c09_scenario_two_pops(par, method, T=5):
    """One scenario overwrites the same parameter in two populations from different years (Y_A < Y_B): adding the later overwrite
    leaves everything before Y_B as in the run with the earlier overwrite only"""

    def body(env):
        import atomica.scenarios as ascn

        am, ap, au, apar, afp = mr.modules()
        P = project("M10", T, 0.25, pops=2)
        F = P.framework
        YA, YB = 2000.25, 2000.75
        s1, s2 = _session(env)
        with s1, s2:
            parset = copy.deepcopy(P.parsets[0])
            mr.symbolize_parset(env, parset, F, comps=False)
            m0 = am.Model(P.settings, F, P.parsets[0])
            parset.initialization = mr.symbolic_state(env, m0)
            ya = [env.real("scenA_y0", 0, 1), env.real("scenA_y1", 0, 1)]
            yb = [env.real("scenB_y0", 0, 1), env.real("scenB_y1", 0, 1)]
            arr = lambda v: env.array(v) if env.symbolic else np.array([float(x) for x in v])
            only_a = ascn.ParameterScenario(name="a", interpolation=method)
            only_a.scenario_values[par] = {"pop_0": {"t": [YA, YA + 0.5], "y": arr(ya)}}
            both = ascn.ParameterScenario(name="ab", interpolation=method)
            both.scenario_values[par] = {"pop_0": {"t": [YA, YA + 0.5], "y": arr(ya)}, "pop_1": {"t": [YB, YB + 0.25], "y": arr(yb)}}
            psA, psB = only_a.get_parset(parset, P), both.get_parset(parset, P)
            tv = [float(t) for t in P.settings.tvec]
            limit = len([t for t in tv if t < YB])
            A, B = run_pair(env, am, lambda: mr.build_model(env, P.settings, F, psA), lambda A_: mr.build_model(env, P.settings, F, psB), 0, limit, "before_second_population_starts", "scenario2[%s;%s]" % (par, method))
            compare_rest(env, am, A, B, [(i, i) for i in range(limit)], "before_second_population_starts", "scenario2[%s;%s]" % (par, method))

    return body


def c09_extension(name, T=4, extra=2, with_programs=False, scenario=None):
    """Extending the simulation end year does not change earlier outputs (scenario: a linear parameter scenario on `scenario` with
    one point inside the short run and one beyond its end but inside the extended run)"""

    def body(env):
        import atomica.scenarios as ascn

        am, ap, au, apar, afp = mr.modules()
        P = project(name, T, 0.25)
        P2 = project(name, T + extra, 0.25)
        F = P.framework
        s1, s2 = _session(env)
        with s1, s2:
            parset = copy.deepcopy(P.parsets[0])
            mr.symbolize_parset(env, parset, F, comps=False)
            parsetA = parsetB = None
            if scenario:
                t_end = float(P.settings.tvec[-1])
                sy = [env.real("scen_y0", 0, 1), env.real("scen_y1", 0, 1)]
                scen = ascn.ParameterScenario(name="s", interpolation="linear")
                scen.scenario_values[scenario] = {"pop_0": {"t": [t_end - 0.5, t_end + 0.3], "y": env.array(sy) if env.symbolic else np.array([float(v) for v in sy])}}
            m0 = am.Model(P.settings, F, P.parsets[0])
            parset.initialization = mr.symbolic_state(env, m0)
            progset = instr = None
            if with_programs:
                progset, psym, outcomes = c13.make_progset(env, P, "additive", list(parset.pop_names))
                instr = ap.ProgramInstructions(start_year=2000.25)
            n = len(P.settings.tvec)
            if scenario:
                # the scenario is applied to each project in turn (the scenario parset is built for that project's time span)
                parsetA, parsetB = scen.get_parset(parset, P), scen.get_parset(parset, P2)
                for q in (parsetA, parsetB):
                    q.initialization = parset.initialization
            else:
                parsetA = parsetB = parset
            A, B = run_pair(env, am, lambda: mr.build_model(env, P.settings, F, parsetA, progset, instr), lambda A_: mr.build_model(env, P2.settings, F, parsetB, progset, instr), 0, n, "end_year_extension", "extension")
            compare_rest(env, am, A, B, [(i, i) for i in range(n)], "end_year_extension", "extension")

    return body


# ---------------------------------------------------------------------------------------------------------------
# C10
# ---------------------------------------------------------------------------------------------------------------


def c10_restart(name, j, T=5, with_programs=False, chain=False, pops=1, transfers=0, dt=0.25, durs=None):
    """Run A from a symbolic state; save state at index j into the parset; run B from t_j: B[i] == A[j+i]"""

    def body(env):
        import atomica.results as ares
        import atomica.project as aproj

        am, ap, au, apar, afp = mr.modules()
        P = project(name, T, dt, pops=pops, transfers=transfers, durs=durs)
        F = P.framework
        s1, s2 = _session(env)
        with s1, s2:
            parset = copy.deepcopy(P.parsets[0])
            mr.symbolize_parset(env, parset, F, comps=False)
            m0 = am.Model(P.settings, F, P.parsets[0])
            parset.initialization = mr.symbolic_state(env, m0)
            progset = instr = None
            if with_programs:
                progset, psym, outcomes = c13.make_progset(env, P, "additive", list(parset.pop_names))
                instr = ap.ProgramInstructions(start_year=2000.25)
            from checks.modelstep import Hooks

            ls = Lockstep(env, am)
            A = mr.build_model(env, P.settings, F, parset, progset, instr)
            with Hooks(am, post=ls.hooks_A()):
                A.process()
            resA = ares.Result(model=A, parset=parset)
            tv = [float(t) for t in A.t]

            def restart(res, year, src_parset, offset, label, key):
                ps2 = copy.deepcopy(src_parset)
                ps2.set_initialization(res, year=year)
                st = aproj.ProjectSettings(sim_start=year, sim_end=tv[-1], sim_dt=dt)
                Bm = mr.build_model(env, st, F, ps2, progset, instr)
                with Hooks(am, post=ls.hooks_B(offset, len(A.t), label, key)):
                    Bm.process()
                # (with a step that is not a binary fraction the restarted grid may run one step past the original end)
                ncommon = min(len(Bm.t), len(A.t) - offset)
                env.claim("%s|restarted_grid_is_the_original_grid" % label, env.true(all(abs(float(Bm.t[i]) - float(A.t[offset + i])) <= 1e-9 for i in range(ncommon))), key="%s[grid]" % key)
                compare_rest(env, am, A, Bm, [(offset + i, i) for i in range(ncommon)], label, key)
                # the restarted run starts from exactly the saved state (rows of timed compartments included)
                conds = []
                for k, arr, idx in ls._stocks(Bm, 0):
                    ref = [x for kk, x, ii in ls._stocks(A, offset) if kk == k]
                    if ref:
                        ia = (k[2], offset) if k[2] is not None else offset
                        conds.append(env.same(arr[idx], ref[0][ia]))
                env.claim("%s|initial_state" % label, env.all(conds), key="%s[comp]" % key)
                return Bm, ps2

            B, ps2 = restart(resA, tv[j], parset, j, "restart_at_index_%d" % j, "restart")
            if chain and len(B.t) > 2:
                resB = ares.Result(model=B, parset=ps2)
                restart(resB, float(B.t[1]), ps2, j + 1, "restart_of_restart", "restart_chain")

    return body


# ---------------------------------------------------------------------------------------------------------------
# C08
# ---------------------------------------------------------------------------------------------------------------


def _numbers(obj, am=None):
    """Flat list of (path, number-or-proxy) for the numeric content of parsets / progsets / instructions"""
    import atomica.utils as au
    import atomica.parameters as apar
    import atomica.programs as ap

    out = []

    def ts(path, t):
        out.append((path + ".t", tuple(t.t)))
        for i, v in enumerate(t.vals):
            out.append((path + ".vals[%d]" % i, v))
        out.append((path + ".assumption", t.assumption))
        out.append((path + ".sigma", t.sigma))
        out.append((path + ".units", t.units))

    if isinstance(obj, apar.ParameterSet):
        for par in obj.all_pars():
            for pop, t in par.ts.items():
                ts("parset.%s.%s" % (par.name, pop), t)
            for pop, y in par.y_factor.items():
                out.append(("parset.%s.y_factor.%s" % (par.name, pop), y))
            out.append(("parset.%s.meta_y_factor" % par.name, par.meta_y_factor))
            out.append(("parset.%s.skip_function" % par.name, tuple(sorted((k, str(v)) for k, v in par.skip_function.items()))))
        init = obj.initialization
        if init is not None:
            for k in sorted(init.values):
                v = init.values[k]
                if isinstance(v, np.ndarray):
                    for i, x in enumerate(v):
                        out.append(("parset.init.%s[%d]" % (k, i), x))
                else:
                    out.append(("parset.init.%s" % (k,), v))
    elif isinstance(obj, ap.ProgramSet):
        for name, prog in obj.programs.items():
            for attr in ("spend_data", "unit_cost", "capacity_constraint", "saturation", "coverage", "baseline_spend"):
                ts("progset.%s.%s" % (name, attr), getattr(prog, attr))
            out.append(("progset.%s.targets" % name, (tuple(prog.target_pops), tuple(prog.target_comps))))
        for k, cv in obj.covouts.items():
            out.append(("progset.covout.%s.baseline" % (k,), cv.baseline))
            for pn, v in cv.progs.items():
                out.append(("progset.covout.%s.%s" % (k, pn), v))
            out.append(("progset.covout.%s.interaction" % (k,), (cv.cov_interaction, cv.imp_interaction, cv.sigma)))
    elif isinstance(obj, ap.ProgramInstructions):
        out.append(("instr.start", obj.start_year))
        out.append(("instr.stop", obj.stop_year))
        for kind in ("alloc", "capacity", "coverage"):
            for k, t in getattr(obj, kind).items():
                ts("instr.%s.%s" % (kind, k), t)
    return out


def c08_copy(name, how, with_programs, T=4, pops=1, transfers=0, partial_init=False):
    """Original model vs deep copy / pickle round trip, run in either order; inputs term-for-term unchanged afterwards"""

    def body(env):
        am, ap, au, apar, afp = mr.modules()
        from vsym.core import _same

        P = project(name, T, 0.25, pops=pops, transfers=transfers)
        F = P.framework
        s1, s2 = _session(env)
        with s1, s2:
            parset = copy.deepcopy(P.parsets[0])
            mr.symbolize_parset(env, parset, F, comps=False)
            m0 = am.Model(P.settings, F, P.parsets[0])
            parset.initialization = mr.symbolic_state(env, m0)
            if partial_init:
                # a hand-written initialization that lists only some compartments (the others start empty, as documented)
                keys = sorted(parset.initialization.values)
                for k in keys[1::2]:
                    del parset.initialization.values[k]
            progset = instr = None
            if with_programs:
                progset, psym, outcomes = c13.make_progset(env, P, "additive", list(parset.pop_names))
                instr = ap.ProgramInstructions(start_year=2000.25, alloc={"Ptest": env.real("alloc_ow", 0, 1e6)})
            before = _numbers(parset) + (_numbers(progset) + _numbers(instr) if with_programs else [])
            fw_before = (F.comps.to_json(), F.pars.to_json(), F.characs.to_json(), F.transitions and str(dict(F.transitions)))
            settings_before = (P.settings.sim_start, P.settings.sim_end, P.settings.sim_dt)
            A = mr.build_model(env, P.settings, F, parset, progset, instr)
            if how == "deepcopy":
                B = copy.deepcopy(A)
            elif how == "pickle":
                B = pickle.loads(pickle.dumps(A))
            elif how == "rebuild":
                B = mr.build_model(env, P.settings, F, parset, progset, instr)
            else:
                raise ValueError(how)
            from checks.modelstep import Hooks

            ls = Lockstep(env, am)
            if env.symbolic:
                env.heap(mr.all_vars(B) + [B])
            with Hooks(am, post=ls.hooks_A()):
                B.process()  # the copy runs first: hidden state shared with the original would show up in A
            if env.symbolic:
                env.heap(mr.all_vars(A) + [A])
            with Hooks(am, post=ls.hooks_B(0, None, "%s_runs_like_original" % how, "copy[%s]" % how)):
                A.process()
            compare_rest(env, am, B, A, [(i, i) for i in range(len(A.t))], "%s_runs_like_original" % how, "copy[%s]" % how)
            after = _numbers(parset) + (_numbers(progset) + _numbers(instr) if with_programs else [])
            fw_after = (F.comps.to_json(), F.pars.to_json(), F.characs.to_json(), F.transitions and str(dict(F.transitions)))
            settings_after = (P.settings.sim_start, P.settings.sim_end, P.settings.sim_dt)
        same_paths = [p for p, _ in before] == [p for p, _ in after]
        unchanged = same_paths and all(_same(a, b) if not (isinstance(a, tuple) or isinstance(b, tuple)) else a == b for (_, a), (_, b) in zip(before, after))
        changed = [p for (p, a), (_, b) in zip(before, after) if not (_same(a, b) if not (isinstance(a, tuple) or isinstance(b, tuple)) else a == b)][:5] if same_paths else ["set of entries changed"]
        env.note("changed_inputs", changed)
        env.claim("inputs_left_unchanged", env.true(bool(unchanged)), key="inputs_unchanged", meta=dict(changed=changed))
        env.claim("framework_and_settings_left_unchanged", env.true(fw_before == fw_after and settings_before == settings_after), key="framework_unchanged")

    return body


def c08_timeseries_roundtrip(how):
    """A TimeSeries (the container of every databook / program book number) survives deepcopy / pickle / copy() field by field,
    for every value incl. 0 and every mix of set and unset optional fields"""

    def body(env):
        am, ap, au, apar, afp = mr.modules()
        from vsym.core import _same

        with env.installed(shim.patches_for(au)):
            cases = {
                "assumption_only": au.TimeSeries(assumption=env.real("a", -10, 10), units="x"),
                "assumption_and_sigma": au.TimeSeries(assumption=env.real("a2", -10, 10), sigma=env.real("s2", 0, 10)),
                "time_data": au.TimeSeries(t=[2000.0, 2001.0], vals=[env.real("v0", -10, 10), env.real("v1", -10, 10)], sigma=env.real("s3", 0, 10)),
                "both": au.TimeSeries(t=[2000.0], vals=[env.real("w0", -10, 10)], assumption=env.real("a4", -10, 10)),
                "empty": au.TimeSeries(units="y"),
            }
            for label, src in cases.items():
                if how == "deepcopy":
                    new = copy.deepcopy(src)
                elif how == "pickle":
                    new = pickle.loads(pickle.dumps(src))
                else:
                    new = src.copy()
                for slot in src.__slots__:
                    a, b = getattr(src, slot, None), getattr(new, slot, None)
                    if isinstance(a, list):
                        ok = isinstance(b, list) and len(a) == len(b) and all(_same(x, y) or (not shim.is_sym(x) and not shim.is_sym(y) and x == y) for x, y in zip(a, b))
                        env.claim("%s|%s|%s" % (how, label, slot), env.true(ok), key="timeseries_roundtrip")
                    elif a is None or b is None or isinstance(a, str):
                        env.claim("%s|%s|%s" % (how, label, slot), env.true(a == b if isinstance(a, str) or isinstance(b, str) else (a is None and b is None)), key="timeseries_roundtrip")
                    else:
                        env.claim("%s|%s|%s" % (how, label, slot), env.same(a, b), key="timeseries_roundtrip")
                env.claim("%s|%s|is_new_object" % (how, label), env.true(new is not src and (new.vals is not src.vals or not src.vals)), key="timeseries_roundtrip")

    return body


def c08_result_copy(how, name="M10", T=3):
    """A finished run reports the same numbers before and after it is copied / pickled, and so does the copy"""

    def body(env):
        am, ap, au, apar, afp = mr.modules()
        import atomica.results as ares

        P = project(name, T, 0.25)
        s1, s2 = _session(env)
        with s1, s2, env.installed(shim.patches_for(ares)):
            parset = copy.deepcopy(P.parsets[0])
            mr.symbolize_parset(env, parset, P.framework, comps=False)
            m0 = am.Model(P.settings, P.framework, P.parsets[0])
            parset.initialization = mr.symbolic_state(env, m0)
            m = mr.build_model(env, P.settings, P.framework, parset)
            from checks.modelstep import Hooks

            def post_comps(model):
                # the stocks of each step become fresh non-negative variables: what is compared below are the reported arrays
                # before and after copying, not their dependence on the inputs
                if not env.cutting:
                    return
                ti = model._t_index
                for pop in model.pops:
                    for c in pop.comps:
                        if not isinstance(c, (am.SourceCompartment, am.JunctionCompartment, am.TimedCompartment)):
                            c.vals[ti] = env.cut(c.vals[ti], "x%d|%s|%s" % (ti, c.name, pop.name), [lambda v: env.ge(v, 0.0, 0)])

            with Hooks(am, post=dict(update_comps=post_comps)):
                m.process()
            res = ares.Result(model=m, parset=parset, name="r")

            def outputs(r):
                out = {}
                for pop in r.model.pops:
                    for var in pop.comps + pop.characs + pop.pars + pop.links:
                        nm = var.name if not isinstance(var, am.Link) else "%s>%s" % (var.source.name, var.dest.name)
                        vals = var.vals
                        out[(pop.name, type(var).__name__, nm)] = None if vals is None else list(vals)
                return out

            before = outputs(res)
            new = copy.deepcopy(res) if how == "deepcopy" else pickle.loads(pickle.dumps(res))
            after = outputs(res)
            copied = outputs(new)
        for label, got in (("original_after_%s" % how, after), ("%s_of_result" % how, copied)):
            env.claim("%s|same_variables" % label, env.true(set(got) == set(before)), key="result_copy_structure")
            for k, a in before.items():
                b = got.get(k)
                if a is None or b is None:
                    env.claim("%s|%s|%s|%s" % ((label,) + k), env.true(a is None and b is None), key="result_copy[%s]" % k[1])
                    continue
                env.claim("%s|%s|%s|%s" % ((label,) + k), env.all([env.same(x, y) for x, y in zip(a, b)]) & env.true(len(a) == len(b)), key="result_copy[%s]" % k[1])

    return body


def c08_leak(units_a, units_b, T=3):
    """A model built and run, then a *different* model (other transfer units) built and run in the same process, then the first one
    built again from the same inputs: the two builds of the first model run identically, and the transfer parameter holds the
    entered value (no state leaks from one model to the next through the library's module-level settings)"""

    def body(env):
        am, ap, au, apar, afp = mr.modules()
        from checks.modelstep import Hooks

        PA = project("M1", T, 0.25, pops=2, transfers=1, transfer_units=units_a)
        PB = project("M1", T, 0.25, pops=2, transfers=1, transfer_units=units_b)
        s1, s2 = _session(env)
        with s1, s2:
            psA = copy.deepcopy(PA.parsets[0])
            sym = mr.symbolize_parset(env, psA, PA.framework, comps=False)
            entered = {nm: ts.assumption for (nm, src), ts in sym.items() if "_to_" in nm}
            m0 = am.Model(PA.settings, PA.framework, PA.parsets[0])
            psA.initialization = mr.symbolic_state(env, m0)
            first = mr.build_model(env, PA.settings, PA.framework, psA)
            other = am.Model(PB.settings, PB.framework, copy.deepcopy(PB.parsets[0]))
            other.process()
            again = mr.build_model(env, PA.settings, PA.framework, psA)
            for pop in again.pops:
                for par in pop.pars:
                    if par.name in entered:
                        for ti in range(len(again.t)):
                            env.claim("transfer_parameter_holds_entered_value|%s|t%d" % (par.name, ti), env.eq(par.vals[ti], entered[par.name], 0), key="transfer_value")
            ls = Lockstep(env, am)
            if env.symbolic:
                env.heap(mr.all_vars(first) + [first])
            with Hooks(am, post=ls.hooks_A()):
                first.process()
            if env.symbolic:
                env.heap(mr.all_vars(again) + [again])
            with Hooks(am, post=ls.hooks_B(0, None, "rebuilt_after_other_model", "leak")):
                again.process()
            compare_rest(env, am, first, again, [(i, i) for i in range(len(first.t))], "rebuilt_after_other_model", "leak")

    return body


def M10b():
    d = gen.M10()
    d["name"] = "M10b"
    for p in d["pars"]:
        if p["name"] == "foi":
            p["function"] = "base*prev*0.5+0.01"
        if p["name"] == "base":
            p["function"] = "beta+mult*0.1"
    return d


gen.CATALOGUE["M10b"] = M10b


def c08_interleave(how, T=3):
    """Two projects whose frameworks share parameter names with different functions, built, copied and run interleaved"""

    def body(env):
        am, ap, au, apar, afp = mr.modules()
        from checks.modelstep import Hooks

        P1, P2 = project("M10", T, 0.25), project("M10b", T, 0.25)
        s1, s2 = _session(env)
        with s1, s2:
            models = []
            for tag, P in (("p1", P1), ("p2", P2)):
                parset = copy.deepcopy(P.parsets[0])
                for (nm, pop), ts in mr.symbolize_parset(env, parset, P.framework, comps=False).items():
                    pass
                m0 = am.Model(P.settings, P.framework, P.parsets[0])
                parset.initialization = mr.symbolic_state(env, m0, prefix="x_" + tag)
                models.append((tag, P, parset))
            # NB: the two parsets share parameter names; their symbolic values are shared too (same names), which is fine
            built = [(tag, mr.build_model(env, P.settings, P.framework, ps)) for tag, P, ps in models]
            dup = (lambda m: copy.deepcopy(m)) if how == "deepcopy" else (lambda m: pickle.loads(pickle.dumps(m)))
            copies = [(tag, dup(m)) for tag, m in built]  # copy project 1's model, then project 2's
            # reference runs from models built afresh after all the copying (an original can be damaged by being copied)
            refs = {tag: mr.build_model(env, P.settings, P.framework, ps) for tag, P, ps in models}
            for (tag, orig), (_, cp) in zip(reversed(built), reversed(copies)):
                ls = Lockstep(env, am, tag=tag)
                ref = refs[tag]
                if env.symbolic:
                    env.heap(mr.all_vars(ref) + [ref])
                with Hooks(am, post=ls.hooks_A()):
                    ref.process()
                for what, mdl in (("original", orig), ("%s_copy" % how, cp)):
                    if env.symbolic:
                        env.heap(mr.all_vars(mdl) + [mdl])
                    with Hooks(am, post=ls.hooks_B(0, None, "%s_of_%s" % (what, tag), "interleave[%s]" % how)):
                        mdl.process()
                    compare_rest(env, am, ref, mdl, [(i, i) for i in range(len(ref.t))], "%s_of_%s" % (what, tag), "interleave[%s]" % how)

    return body


# ---------------------------------------------------------------------------------------------------------------
# group lists
# ---------------------------------------------------------------------------------------------------------------

STUBS = ["numpy/scipy/sciris in atomica.model, programs, utils, parameters, results, scenarios, function_parser -> vsym shims", "merge points incl. the outlined per-parameter loops of Model.update_links and Model.update_pars, Covout.get_outcome", "runs are un-abstracted (no cuts): the two runs are compared term by term"]


def _funcs():
    import atomica.results as ares
    import atomica.scenarios as ascn

    am, ap, au, apar, afp = mr.modules()
    return [am.Model.__init__, am.Model.build, am.Model.process, am.Model.update_pars, am.Model.update_links, am.Model.update_comps, am.Model._update_program_cache, am.Model.__deepcopy__, am.Model.__getstate__, am.Model.__setstate__, am.Model.unlink, am.Model.relink, apar.ParameterSet.set_initialization, apar.Initialization.from_result, apar.Initialization.apply, ascn.ParameterScenario.get_parset, ap.ProgramInstructions.__init__, ap.ProgramSet.get_capacities, ap.ProgramSet.get_prop_coverage, au.TimeSeries.interpolate]


def specs(prop, tier):
    q = tier == "quick"
    out = []
    if prop == "C09":
        for Y in (2000.5, 2000.6):
            out.append(("program_start[Y=%g]" % Y, c09_program_start, dict(Y=Y)))
        if not q:
            out.append(("program_start[Y=2000.25;random]", c09_program_start, dict(Y=2000.25, interaction="random")))
            out.append(("program_start[Y=2000.9;nested]", c09_program_start, dict(Y=2000.9, interaction="nested")))
        for kind in ("alloc", "capacity", "coverage"):
            out.append(("overwrite[%s;Y=2000.5]" % kind, c09_overwrite, dict(kind=kind, Y=2000.5)))
            out.append(("overwrite[%s;Y=2000.6;first point after start]" % kind, c09_overwrite, dict(kind=kind, Y=2000.6, first_point_after_start=True)))
            if kind == "alloc" or not q:
                out.append(("overwrite[%s;Y=2000.75;series straddles the start year]" % kind, c09_overwrite, dict(kind=kind, Y=2000.75, first_point_before_start=True)))
        for par in ("beta", "foi", "foi2", "base"):
            for method in ("linear", "previous"):
                for Y in ((2000.5,) if q else (2000.5, 2000.6)):
                    out.append(("scenario[%s;%s;Y=%g]" % (par, method, Y), c09_scenario, dict(par=par, Y=Y, method=method)))
        out.append(("scenario[beta;linear;two populations starting in different years]", c09_scenario_two_pops, dict(par="beta", method="linear")))
        if not q:
            out.append(("scenario[foi;previous;two populations starting in different years]", c09_scenario_two_pops, dict(par="foi", method="previous")))
        out.append(("extension[M10]", c09_extension, dict(name="M10")))
        out.append(("extension[M12;programs]", c09_extension, dict(name="M12", with_programs=True)))
        out.append(("extension[M10;linear scenario on beta with a point beyond the short end]", c09_extension, dict(name="M10", scenario="beta")))
        if not q:
            out.append(("extension[M7]", c09_extension, dict(name="M7")))
    elif prop == "C10":
        out.append(("restart[M1;j=2]", c10_restart, dict(name="M1", j=2)))
        out.append(("restart[M4;j=1]", c10_restart, dict(name="M4", j=1)))
        out.append(("restart[M1;j=3;dt=0.1]", c10_restart, dict(name="M1", j=3, dt=0.1)))
        out.append(("restart[M7;j=2;duration of one step (single row)]", c10_restart, dict(name="M7", j=2, durs=(0.25,))))
        out.append(("restart[M7;j=2;chain]", c10_restart, dict(name="M7", j=2, chain=True, T=6)))
        out.append(("restart[M8;j=2]", c10_restart, dict(name="M8", j=2)))
        out.append(("restart[M12;j=2;programs]", c10_restart, dict(name="M12", j=2, with_programs=True)))
        if not q:
            # restarting at or before the program start year builds syntactically different (semantically equal) terms for the
            # first program step: these equalities need the nonlinear solver (1-3 minutes), hence thorough only
            out.append(("restart[M12;j=1;programs]", c10_restart, dict(name="M12", j=1, with_programs=True)))
            out.append(("restart[M12;j=0;programs]", c10_restart, dict(name="M12", j=0, with_programs=True)))
        if not q:
            out.append(("restart[M7;j=1;2 pops;transfer]", c10_restart, dict(name="M7", j=1, pops=2, transfers=1)))
            out.append(("restart[M8;j=3;chain]", c10_restart, dict(name="M8", j=3, chain=True, T=7)))
            out.append(("restart[M10;j=2]", c10_restart, dict(name="M10", j=2)))
    elif prop == "C08":
        for how in ("deepcopy", "pickle", "rebuild"):
            out.append(("copy[M12;%s;programs]" % how, c08_copy, dict(name="M12", how=how, with_programs=True)))
        out.append(("copy[M7;deepcopy]", c08_copy, dict(name="M7", how="deepcopy", with_programs=False)))
        out.append(("copy[M10;pickle]", c08_copy, dict(name="M10", how="pickle", with_programs=False)))
        out.append(("copy[M1;rebuild;partial initialization]", c08_copy, dict(name="M1", how="rebuild", with_programs=False, partial_init=True)))
        out.append(("interleave[deepcopy]", c08_interleave, dict(how="deepcopy")))
        out.append(("interleave[pickle]", c08_interleave, dict(how="pickle")))
        for how in ("deepcopy", "pickle"):
            out.append(("result_copy[M10;%s]" % how, c08_result_copy, dict(how=how)))
        for how in ("deepcopy", "pickle", "copy"):
            out.append(("timeseries_roundtrip[%s]" % how, c08_timeseries_roundtrip, dict(how=how)))
        out.append(("other_model_in_between[probability transfer;duration transfer]", c08_leak, dict(units_a="probability", units_b="duration")))
        if not q:
            out.append(("copy[M1;pickle;2 pops;transfer]", c08_copy, dict(name="M1", how="pickle", with_programs=False, pops=2, transfers=1)))
            out.append(("copy[M8;deepcopy]", c08_copy, dict(name="M8", how="deepcopy", with_programs=False)))
    return out


def groups(prop, tier):
    gs = []
    for nm, fac, kw in specs(prop, tier):
        body = fac(**kw)

        def g(tier_, seed, _b=body, _nm=nm, _kw=kw):
            return run_body(_b, _nm, tier_, seed, functions=_funcs(), bounds=dict(_kw, dt=0.25), stubs=STUBS, timeout_ms=60000 if tier_ == "quick" else 300000, max_paths=200)

        g.__name__ = nm
        gs.append(g)
    return gs


def replay(prop, rec):
    for nm, fac, kw in specs(prop, "thorough") + specs(prop, "quick"):
        if nm == rec["replay"]["group"]:
            return replay_body(fac(**kw), rec["model"], rec["replay"]["claim"])
    return False, "unknown group"
