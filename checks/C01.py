"""C01 -- see DESIGN.md §5 C01. Kernel-level groups (checks/kern.py); model-level groups are added in checks/modelstep.py"""
from checks import kern, modelstep

TECHNIQUE = "symbolic execution of the real integration methods (Model.update_links/update_comps/flush_junctions and the Compartment/Junction/Timed kernels) on z3-real proxies with state merging and cuts; SMT obligations (z3, cvc5 portfolio); counterexamples replayed on the unpatched code"
EXPLANATION = 'One real integration step (Model.update_links, Model.update_comps; Model.flush_junctions) is executed symbolically on micro-graphs wired from the real Compartment/Source/Sink/Timed/Junction/Residual classes, from an arbitrary valid pre-state (all stocks/rows >= 0, parameter values of any sign, symbolic dt and timescales, arbitrary stale per-step caches). Obligations: next stock == stock + recorded inflows - recorded outflows for every compartment (timed: summed over rows), cached outflow == recorded outflow, junction outflow == inflow and junction stays empty, initial flush preserves the total. Link flows are cut (fresh variables carrying the guarantees proved just before) before the compartment phase so the balance queries are linear. Bounds: micro-graphs as listed per group; |values| <= 1e9, dt in [1/365,5], timescales in [1e-3,1e3]; real arithmetic (tolerance 1e-9 relative, 1e-8 for C03). Outside: larger fan-outs, float rounding, multi-step interactions other than through the arbitrary pre-state.'
GROUP_TIMEOUT = {"quick": 1800, "thorough": 3600}


def groups(tier):
    return kern.kernel_groups("C01", tier) + modelstep.groups("C01", tier)


def replay(rec):
    if rec["replay"].get("group", "").startswith(("model[", "wiring[", "init_spread[")):
        return modelstep.replay("C01", rec)
    return kern.kernel_replay("C01", rec)
