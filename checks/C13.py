"""
C13 -- active programs set targeted parameters exactly, and reports match the run.

Real code: Model._update_program_cache, Model.update_pars (program overwrite + unit conversion + constrain), ProgramSet.get_capacities /
get_prop_coverage / get_outcomes, Program.get_capacity / get_prop_covered, Covout.get_outcome, Result.get_coverage / get_alloc,
executed on a generated program-targeted model with symbolic spending, unit costs, outcomes, baselines, stocks and data.
"""

import copy
import numpy as np
from vsym import modelrun as mr, gen, shim
from vsym.env import run_body, replay_body
from checks.modelstep import Hooks, project
from checks.C06 import clip_spec

TECHNIQUE = "symbolic execution of the real Model.process with programs active (update_pars overwrite/conversion/constrain, program cache, ProgramSet/Program/Covout methods) and of Result.get_coverage/get_alloc on z3-real proxies; equality obligations between stored parameter values, values recomputed from the finished Result, and an independent specification; SMT; replay on the unpatched code"
EXPLANATION = (
    "Model M12 (number, probability, rate and junction-proportion parameters targeted; an untargeted parameter) with a real ProgramSet of five programs (two of them sharing one target, additive/random/nested interaction), one-off and continuous unit costs, "
    "symbolic spending, unit costs, baselines and outcomes, symbolic stocks (cut to fresh non-negative variables after every step) and data; instructions with start year on/off the grid, stop year, and spending/capacity/coverage overwrites. "
    "Obligations at every time index: (i) while programs are active the stored value of every targeted (parameter, population) equals clip(convert(outcome at the coverage of that step)) where coverage is recomputed from the finished Result "
    "(Result.get_coverage('fraction') -> ProgramSet.get_outcomes) and, independently, from spending*dt/unit cost over the current size of the targeted compartments; conversion: number x source size / dt, probability and rate / dt; "
    "(ii) reported spending/capacity/eligible/number covered are the ones used (capacity = spending(dt)/unit cost, eligible = sum of targeted compartments, number = fraction*eligible/dt); "
    "(iii) outside [start, stop] and for untargeted parameters the value is the data value. Bounds: one population (plus a 2-population variant in thorough), T = 4, dt = 0.25, <= 2 programs per parameter."
)
GROUP_TIMEOUT = {"quick": 1800, "thorough": 3600}

PROGS = [
    # name, target comps, one_off, effects {(par): outcome symbol}
    ("Ptest", ["undx"], True, ["test"]),
    ("Ptreat", ["dx"], True, ["treat"]),
    ("Ploss1", ["tx"], False, ["loss"]),
    ("Ploss2", ["tx", "lost"], False, ["loss"]),  # two target compartments
    ("Pptx", ["undx"], False, ["ptx"]),
]


def make_progset(env, P, interaction, pops):
    import atomica as at
    import sciris as sc

    am, ap, au, apar, afp = mr.modules()
    F, D = P.framework, P.data
    ps = at.ProgramSet.new(tvec=np.array([2000.0]), progs={p[0]: p[0] for p in PROGS}, framework=F, data=D)
    sym = {}
    for name, comps, one_off, pars in PROGS:
        prog = ps.programs[name]
        prog.target_pops = list(pops)
        prog.target_comps = list(comps)
        s = env.real("spend|%s" % name, 0, 1e6)
        u = env.real("unitcost|%s" % name, 1e-3, 1e4)
        prog.spend_data = au.TimeSeries(assumption=s, units="$/year")
        prog.unit_cost = au.TimeSeries(assumption=u, units="$/person" if one_off else "$/person/year")
        sym[name] = dict(spend=s, unit_cost=u, one_off=one_off, comps=comps)
    outcomes = {}
    for par in ("test", "treat", "loss", "ptx"):
        hi = 1.0 if par in ("test", "ptx") else (50.0 if par == "treat" else 5.0)
        for pop in pops:
            base = env.real("baseline|%s|%s" % (par, pop), 0, hi)
            progs = {}
            for name, comps, one_off, pars in PROGS:
                if par in pars:
                    progs[name] = env.real("outcome|%s|%s|%s" % (par, pop, name), 0, hi)
            with env.installed(shim.patches_for(ap)):
                ps.covouts[(par, pop)] = ap.Covout(par=par, pop=pop, progs=progs, cov_interaction=interaction, baseline=base)
            outcomes[(par, pop)] = (base, progs)
    return ps, sym, outcomes


def body_factory(interaction="additive", start=2000.25, stop=None, overwrite=None, pops=1, T=3, junction_init=False, model="M12"):
    def body(env):
        am, ap, au, apar, afp = mr.modules()
        import atomica.results as ares

        P = project(model, T, 0.25, pops=pops)
        F = P.framework
        popnames = [p for p in P.parsets[0].pop_names]
        parset = copy.deepcopy(P.parsets[0])
        nn = lambda v: env.ge(v, 0.0, 0)
        from vsym.core import merged

        with mr.session(env, outline_pars=True), env.installed(shim.patches_for(ares) + ([(ap.Covout, "get_outcome", merged(ap.Covout.__dict__["get_outcome"], name="Covout.get_outcome"))] if env.symbolic else [])):
            data = mr.symbolize_parset(env, parset, F, comps=False)
            progset, psym, outcomes = make_progset(env, P, interaction, popnames)
            kw = {}
            ow = {}
            if overwrite == "alloc":
                ow["Ptest"] = env.real("ow_alloc|Ptest", 0, 1e6)
                kw["alloc"] = {"Ptest": ow["Ptest"]}
            elif overwrite == "capacity":
                ow["Ptreat"] = env.real("ow_capacity|Ptreat", 0, 1e6)
                kw["capacity"] = {"Ptreat": ow["Ptreat"]}
            elif overwrite == "coverage":
                ow["Ploss1"] = env.real("ow_coverage|Ploss1", 0, 2)
                ow["Ptest"] = env.real("ow_coverage|Ptest", 0, 10)  # one-off program: the overwrite is per year
                kw["coverage"] = {"Ploss1": ow["Ploss1"], "Ptest": ow["Ptest"]}
            instr = ap.ProgramInstructions(start_year=start, stop_year=stop, **kw)
            m0 = am.Model(P.settings, F, P.parsets[0])
            parset.initialization = mr.symbolic_state(env, m0)
            if junction_init:
                # people initially in the junction are flushed into the compartments at index 0 (between the two start-up
                # evaluations of the parameters), so the stocks the programs see change within that index
                for pop in m0.pops:
                    for c in pop.comps:
                        if isinstance(c, am.JunctionCompartment):
                            parset.initialization.values[(c.name, pop.name)] = env.real("j0|%s|%s" % (c.name, pop.name), 0, 1e6)

            def post_comps(model):
                if not env.cutting:
                    return
                ti = model._t_index
                for pop in model.pops:
                    for c in pop.comps:
                        if isinstance(c, (am.SourceCompartment, am.JunctionCompartment, am.TimedCompartment)):
                            continue
                        c.vals[ti] = env.cut(c.vals[ti], "x%d|%s|%s" % (ti, c.name, pop.name), [nn])

            m = mr.build_model(env, P.settings, F, parset, progset, instr)
            used_cov = {}  # ti -> {prog: (coverage term used by the integrator, value handed on to get_outcomes)}
            orig_get_outcomes = ap.ProgramSet.__dict__["get_outcomes"]
            ncall = [0]

            def get_outcomes_hook(self_, prop_coverage):
                ti = m._t_index
                ncall[0] += 1
                rec = {}
                for k in list(prop_coverage.keys()):
                    real = prop_coverage[k][0]
                    if env.cutting:
                        c = env.cut(real, "cov|%s|t%d|call%d" % (k, ti, ncall[0]), [lambda v: env.ge(v, 0.0, 0), lambda v: env.le(v, 1.0, 0)])
                        prop_coverage[k] = env.array([c])
                    else:
                        c = real
                    rec[k] = (real, c)
                used_cov[ti] = rec  # the last call at an index is the one whose values are kept
                return orig_get_outcomes(self_, prop_coverage)

            with Hooks(am, post=dict(update_comps=post_comps)), shim.Installed([(ap.ProgramSet, "get_outcomes", get_outcomes_hook)]):
                m.process()
            res = ares.Result(model=m, parset=parset)
            # the reports are read-only views of the run: every compartment array is the same object with the same terms afterwards
            snap = {(pop.name, c.name): (c.vals if not isinstance(c, (am.TimedCompartment,)) else None, list(c.vals)) for pop in m.pops for c in pop.comps}
            rep_frac = res.get_coverage("fraction")
            rep_elig = res.get_coverage("eligible")
            rep_cap = res.get_coverage("capacity")
            rep_num = res.get_coverage("number")
            rep_alloc = res.get_alloc()
            rep_elig2 = res.get_coverage("eligible")
            from vsym.core import _same as _same_term

            for pop in m.pops:
                for c in pop.comps:
                    obj0, vals0 = snap[(pop.name, c.name)]
                    now = list(c.vals)
                    env.claim("reports_leave_the_run_untouched|%s|%s" % (pop.name, c.name), env.true(len(now) == len(vals0) and all(_same_term(a, b) for a, b in zip(now, vals0))), key="report_purity")
            for name in rep_elig:
                env.claim("repeated_query_gives_the_same_eligible|%s" % name, env.true(all(_same_term(a, b) for a, b in zip(rep_elig[name], rep_elig2[name]))), key="report_purity")
            dt = m.dt
            tvec = [float(t) for t in m.t]
            for ti, t in enumerate(tvec):
                active = (start <= t) and (stop is None or t <= stop)
                env.claim("programs_applied_exactly_when_active|t%d" % ti, env.true((ti in used_cov) == active), key="programs_applied")
                if active and ti not in used_cov:
                    continue
                # ---- independent coverage specification
                cov_spec = {}
                for name, comps, one_off, pars in PROGS:
                    s = psym[name]["spend"]
                    if overwrite == "alloc" and name == "Ptest":
                        s = ow["Ptest"]
                    cap = s * (dt if one_off else 1.0) / psym[name]["unit_cost"]
                    if overwrite == "capacity" and name == "Ptreat":
                        cap = ow["Ptreat"] * (dt if one_off else 1.0)
                    elig = 0.0
                    for pop in m.pops:
                        for cn in comps:
                            elig = elig + mr.comp_val(am, pop.comp_lookup[cn], ti)
                    if overwrite == "coverage" and name in ("Ploss1", "Ptest"):
                        cov = env.smin(ow[name] * (dt if one_off else 1.0), 1.0)
                    else:
                        if env.symbolic:
                            from vsym.core import where

                            cov = where(elig > cap, cap / elig, 1.0)
                        else:
                            cov = cap / elig if elig > cap else 1.0
                    cov_spec[name] = (cov, cap, elig, s)
                    env.claim("reported_spending|%s|t%d" % (name, ti), env.eq(rep_alloc[name][ti], s), key="report_alloc")
                    ann = dt if one_off else 1.0  # capacity and number covered are reported per year for one-off programs
                    env.claim("reported_capacity|%s|t%d" % (name, ti), env.eq(rep_cap[name][ti] * ann, cap), key="report_capacity")
                    env.claim("reported_eligible|%s|t%d" % (name, ti), env.eq(rep_elig[name][ti], elig), key="report_eligible")
                    env.claim("reported_fraction|%s|t%d" % (name, ti), env.eq(rep_frac[name][ti], cov), key="report_fraction")
                    env.claim("reported_number|%s|t%d" % (name, ti), env.eq(rep_num[name][ti] * ann, rep_frac[name][ti] * elig), key="report_number")
                # ---- the coverage the integrator used is the reported one (and the specified one, above)
                if active:
                    for name in rep_frac:
                        env.claim("coverage_used_is_reported|%s|t%d" % (name, ti), env.eq(used_cov[ti][name][0], rep_frac[name][ti]), key="coverage_used")
                # ---- parameter values: outcome at the coverage handed to get_outcomes (cut to a fresh variable in [0,1])
                from_result = orig_get_outcomes(progset, {k: env.array([used_cov[ti][k][1]]) for k in rep_frac}) if active else {}
                for pop in m.pops:
                    for pname in ("test", "treat", "loss", "ptx", "ret"):
                        par = pop.par_lookup[pname]
                        lo, hi = F.pars.at[pname, "minimum value"], F.pars.at[pname, "maximum value"]
                        dval = data[(pname, pop.name)].assumption
                        if active and (pname, pop.name) in outcomes:
                            v = from_result[(pname, pop.name)]
                            base, progs = outcomes[(pname, pop.name)]
                            if len(progs) == 1:
                                (pn, out), = progs.items()
                                spec_v = base + used_cov[ti][pn][1] * (out - base)
                            else:
                                spec_v = None
                            srcsize = 0.0
                            for l in par.links:
                                srcsize = srcsize + mr.comp_val(am, l.source, ti)

                            def conv(x):
                                if par.units == "number":
                                    return x * srcsize / dt
                                if par.units in ("probability", "rate"):
                                    return x / dt
                                return x

                            env.claim("stored_value_matches_report|%s|%s|t%d" % (pname, pop.name, ti), env.eq(par.vals[ti], clip_spec(env, conv(v), lo, hi)), key="matches_report[%s]" % pname)
                            if spec_v is not None:
                                env.claim("stored_value_matches_specification|%s|%s|t%d" % (pname, pop.name, ti), env.eq(par.vals[ti], clip_spec(env, conv(spec_v), lo, hi)), key="matches_spec[%s]" % pname)
                        else:
                            env.claim("data_value_when_not_overwritten|%s|%s|t%d" % (pname, pop.name, ti), env.eq(par.vals[ti], clip_spec(env, dval, lo, hi)), key="not_overwritten[%s]" % pname)
                    # ---- function parameters downstream of a targeted parameter follow the *stored* (overwritten) value of the same step
                    for pname in F.pars.index:
                        fcn = F.pars.at[pname, "function"]
                        if isinstance(fcn, str) and fcn.strip() and pname in pop.par_lookup:
                            from checks.C06 import eval_fn
                            import ast as real_ast

                            deps = {n.id for n in real_ast.walk(real_ast.parse(fcn, mode="eval")) if isinstance(n, real_ast.Name)}
                            if all(d in pop.par_lookup for d in deps):
                                v = eval_fn(env, fcn, {d: pop.par_lookup[d].vals[ti] for d in deps})
                                env.claim("function_of_same_step_values|%s|%s|t%d" % (pname, pop.name, ti), env.eq(pop.par_lookup[pname].vals[ti], clip_spec(env, v, F.pars.at[pname, "minimum value"], F.pars.at[pname, "maximum value"])), key="function_follows_program[%s]" % pname)

    return body


def _funcs():
    am, ap, au, apar, afp = mr.modules()
    import atomica.results as ares

    return [am.Model._update_program_cache, am.Model.update_pars, am.Model.process, am.Parameter.constrain, am.Parameter.source_popsize, ap.ProgramSet.get_alloc, ap.ProgramSet.get_capacities, ap.ProgramSet.get_prop_coverage, ap.ProgramSet.get_outcomes, ap.Program.get_capacity, ap.Program.get_prop_covered, ap.Covout.get_outcome, ap.ProgramInstructions.__init__, ares.Result.get_coverage, ares.Result.get_alloc]


def specs(tier):
    out = [
        ("programs[additive;start=2000.25]", dict(interaction="additive", start=2000.25)),
        ("programs[random;start=2000.3(offgrid);stop=2000.5]", dict(interaction="random", start=2000.3, stop=2000.5)),
        ("programs[nested;start=2000.0]", dict(interaction="nested", start=2000.0)),
        ("programs[additive;start=2000.0;initial junction contents]", dict(interaction="additive", start=2000.0, junction_init=True)),
        ("programs[additive;start=2000.25;function chain below a targeted parameter]", dict(interaction="additive", start=2000.25, model="M12c")),
        ("programs[additive;alloc overwrite]", dict(interaction="additive", start=2000.25, overwrite="alloc")),
        ("programs[additive;capacity overwrite]", dict(interaction="additive", start=2000.25, overwrite="capacity")),
        ("programs[additive;coverage overwrite]", dict(interaction="additive", start=2000.25, overwrite="coverage")),
    ]
    if tier != "quick":
        out += [("programs[additive;2 populations]", dict(interaction="additive", start=2000.25, pops=2)), ("programs[random;T=6]", dict(interaction="random", start=2000.5, T=6))]
    return out


def groups(tier):
    gs = []
    for nm, kw in specs(tier):
        body = body_factory(**kw)

        def g(tier_, seed, _b=body, _nm=nm, _kw=kw):
            return run_body(_b, _nm, tier_, seed, functions=_funcs(), bounds=dict(_kw, model="M12", dt=0.25), stubs=["numpy/scipy/sciris in atomica.model, programs, utils, results -> vsym shims", "stocks cut to fresh non-negative variables after each Model.update_comps"], timeout_ms=120000, max_paths=3000)

        g.__name__ = nm
        gs.append(g)
    return gs


def replay(rec):
    for nm, kw in specs("thorough"):
        if nm == rec["replay"]["group"]:
            return replay_body(body_factory(**kw), rec["model"], rec["replay"]["claim"])
    return False, "unknown group"
