"""
C14 -- constrained allocations meet the total and every bound, or are rejected.

Real code: optimization.constrain_sum_bounded (code object re-bound with scipy.optimize.minimize replaced by a
nondeterministic stub), TotalSpendConstraint.get_hard_constraint / constrain_instructions, Adjustable.get_hard_bounds,
SpendingAdjustment, SpendingPackageAdjustment.update_instructions / set_total_spend, PairedLinearSpendingAdjustment.update_instructions.
"""

import copy
import types
import numpy as np
from vsym import shim
from vsym.env import run_body, replay_body
from vsym.core import SR, SB, HarnessError

TECHNIQUE = "symbolic execution of the real constraint code of atomica.optimization on z3-real proxies with scipy.optimize.minimize (SLSQP, Fortran) replaced by a nondeterministic stub (arbitrary vector, arbitrary success flag); SMT obligations over every proposal, total and bound vector; counterexamples replayed on the unpatched code with the real SLSQP"
EXPLANATION = (
    "constrain_sum_bounded is executed on symbolic proposals x >= 0 (n = 2, 3; including all-zero and single non-zero), total s > 0 and bound vectors (0 <= lb <= ub, finite or infinite upper bounds) with the SLSQP call replaced by a stub returning an "
    "arbitrary vector and an arbitrary success flag. Obligations: whatever is returned satisfies lb <= x <= ub exactly and |sum - s| <= 1e-8 + 1e-5*s (the envelope guaranteed by the code's own check; the property's tighter 1e-6 relative total depends on SLSQP's "
    "internal accuracy and is NOT decided here), otherwise FailedConstraint/AssertionError is raised; a proposal that already meets the total and all bounds is returned unchanged. TotalSpendConstraint.get_hard_constraint: the required total is budget factor x (explicit total, "
    "else the spending in the instructions), relative and absolute bounds are taken from the adjustables, and UnresolvableConstraint is raised exactly when sum(lb) > total or sum(ub) < total. constrain_instructions writes amounts that meet bounds and total or raises. "
    "SpendingPackageAdjustment keeps every member's share within [min, max] proportion and the package total within its limits; PairedLinearSpendingAdjustment conserves the pair's total and keeps both non-negative. Bounds: 2-3 programs, one constrained year; s = 0 is outside (NaN bounds)."
)
GROUP_TIMEOUT = {"quick": 1800, "thorough": 3600}
VMAX = 1e6


class _StubMinimize:
    """scipy stand-in: optimize.minimize returns an arbitrary vector and an arbitrary success flag"""

    def __init__(self, env, n, real):
        self.env, self.n, self._real = env, n, real
        self.optimize = self
        self.calls = 0

    def __getattr__(self, k):
        return getattr(self._real, k)

    def minimize(self, fun, x0, **kw):
        self.calls += 1
        env = self.env
        xs = [env.real("slsqp_x%d_call%d" % (i, self.calls), -10, 10) for i in range(len(x0))]
        ok = env.real("slsqp_success_call%d" % self.calls, 0, 1)
        return {"success": env.b(ok >= 0.5) if env.symbolic else bool(ok >= 0.5), "x": env.array(xs) if env.symbolic else np.array([float(v) for v in xs])}


def _slsqp_patches(env, ao, n, scipy, patches):
    """SLSQP is environment: in the symbolic run it returns an arbitrary vector and success flag (the code under test must
    validate whatever it gets); a counterexample is replayed first with the real SLSQP and, if that does not reproduce it, with the
    optimizer output of the solver's model fed back in (ConcEnv with inject=True) - the report then says so"""
    use_stub = env.symbolic or (getattr(env, "inject", False) and any(k.startswith("slsqp_x0_call") for k in getattr(env, "values", {})))
    if not use_stub:
        return patches
    return [p for p in patches if not (p[0] is ao.__dict__ and p[1] == "scipy")] + [(ao.__dict__, "scipy", _StubMinimize(env, n, scipy), "concrete")]


def _rebind(f, **stubs):
    g = dict(f.__globals__)
    g.update(stubs)
    return types.FunctionType(f.__code__, g, f.__name__, f.__defaults__, f.__closure__)


def csb_body(n, inf_upper):
    def body(env):
        import scipy
        import atomica.optimization as ao

        x = [env.real("x%d" % i, 0, VMAX) for i in range(n)]
        s = env.real("s", 1e-3, VMAX)
        lb = [env.real("lb%d" % i, 0, VMAX) for i in range(n)]
        ub = [(float("inf") if (inf_upper and i == n - 1) else env.real("ub%d" % i, 0, VMAX)) for i in range(n)]
        unbounded = [bool(inf_upper and i == n - 1) for i in range(n)]  # (not `isinstance(ub[i], float)`: every input is a float in the concrete replay)
        for i in range(n):
            if not unbounded[i]:
                env.assume(env.b(lb[i] <= ub[i]), "lb <= ub")
        if env.symbolic:
            snp = shim.ShimNP()
            fn = _rebind(ao.constrain_sum_bounded, np=snp, scipy=_StubMinimize(env, n, scipy))
            ubarr = env.array(ub)
        else:
            fn = ao.constrain_sum_bounded
            ubarr = np.array([float(u) for u in ub])
        raised = None
        try:
            out = fn(env.array(x), s, env.array(lb), ubarr)
        except ao.FailedConstraint:
            raised = "FailedConstraint"
        except AssertionError:
            raised = "AssertionError"
        if raised:
            env.note("raised", raised)
            return
        tot = 0.0
        for i in range(n):
            tot = tot + out[i]
            env.claim("within_lower_bound_%d" % i, env.ge(out[i], lb[i], 0), key="bounds")
            if not unbounded[i]:
                env.claim("within_upper_bound_%d" % i, env.le(out[i], ub[i], 0), key="bounds")
        d = tot - s
        env.claim("meets_total", env.le(d, 1e-8 + 1e-5 * s, 0) & env.ge(d, -(1e-8 + 1e-5 * s), 0), key="total")
        # unchanged when already satisfying
        sx = 0.0
        for v in x:
            sx = sx + v
        ok = env.all([env.ge(x[i], lb[i], 0) for i in range(n)] + [env.le(x[i], ub[i], 0) for i in range(n) if not unbounded[i]] + [env.eq(sx, s, 0)])
        env.claim("satisfying_proposal_returned_unchanged", env.all([env.eq(out[i], x[i]) for i in range(n)]), under=ok.exact, key="unchanged")

    return body


def _mk_opt(env, ao, ap, au, n, limit_type, explicit_total, factor, package=False):
    names = ["P%d" % i for i in range(n)]
    spends = [env.real("spend%d" % i, 0, VMAX) for i in range(n)]
    t = 2020.0
    instr = ap.ProgramInstructions(start_year=2019.0, alloc={nm: au.TimeSeries(t=[t], vals=[v]) for nm, v in zip(names, spends)})
    adjs = []
    bounds = []
    for i, nm in enumerate(names):
        lo = env.real("lower%d" % i, 0, 2 if limit_type == "rel" else VMAX)
        hi = env.real("upper%d" % i, 0, 5 if limit_type == "rel" else VMAX)
        env.assume(env.b(lo <= hi), "lower <= upper")
        adjs.append(ao.SpendingAdjustment(nm, t, limit_type, lo, hi))
        bounds.append((lo * spends[i], hi * spends[i]) if limit_type == "rel" else (lo, hi))
    tot = env.real("total_spend", 1e-3, VMAX) if explicit_total else None
    bf = env.real("budget_factor", 0.1, 10) if factor else 1.0
    con = ao.TotalSpendConstraint(total_spend=tot, t=t if explicit_total else None, budget_factor=bf)
    opt = ao.Optimization(name="o", adjustments=adjs, measurables=[], constraints=[con])
    return opt, con, instr, names, spends, bounds, tot, bf, t


def hard_constraint_body(n, limit_type, explicit_total, factor):
    def body(env):
        import atomica.optimization as ao
        import atomica.programs as ap
        import atomica.utils as au

        with env.installed(shim.patches_for(ao, ap, au)):
            opt, con, instr, names, spends, bounds, tot, bf, t = _mk_opt(env, ao, ap, au, n, limit_type, explicit_total, factor)
            required = (tot if explicit_total else sum(spends[1:], spends[0])) * bf
            slb = sum([b[0] for b in bounds][1:], bounds[0][0])
            sub = sum([b[1] for b in bounds][1:], bounds[0][1])
            impossible = env.b(slb > required) | env.b(sub < required) if env.symbolic else (slb > required or sub < required)
            try:
                hc = con.get_hard_constraint(opt, instr)
                raised = False
            except ao.UnresolvableConstraint:
                raised = True
        if raised:
            env.claim("unresolvable_only_when_impossible", env.true(impossible), key="unresolvable")
            return
        env.claim("impossible_constraint_reported_up_front", env.true(~impossible if env.symbolic else (not impossible)), key="unresolvable")
        got = hc["initial_total_spend"][t]
        env.claim("required_total_is_factor_times_total", env.eq(got, required), key="required_total")
        for nm, (lo, hi) in zip(names, bounds):
            glo, ghi = hc["bounds"][t][nm]
            env.claim("bounds_of_%s" % nm, env.eq(glo, lo) & env.eq(ghi, hi), key="hard_bounds")

    return body


def constrain_instructions_body(n, limit_type):
    def body(env):
        import scipy
        import atomica.optimization as ao
        import atomica.programs as ap
        import atomica.utils as au

        patches = shim.patches_for(ao, ap, au)
        patches = _slsqp_patches(env, ao, n, scipy, patches)
        with env.installed(patches):
            opt, con, instr, names, spends, bounds, tot, bf, t = _mk_opt(env, ao, ap, au, n, limit_type, True, False)
            try:
                hc = con.get_hard_constraint(opt, instr)
            except ao.UnresolvableConstraint:
                return
            # the optimizer proposes new amounts within the individual bounds
            prop = [env.real("proposal%d" % i, 0, VMAX) for i in range(n)]
            for i, nm in enumerate(names):
                instr.alloc[nm].insert(t, prop[i])
            try:
                con.constrain_instructions(instr, hc, opt)
            except (ao.FailedConstraint, AssertionError):
                return
            vals = [instr.alloc[nm].get(t) for nm in names]
        s = 0.0
        for i, nm in enumerate(names):
            s = s + vals[i]
            env.claim("amount_within_bounds_%d" % i, env.ge(vals[i], bounds[i][0]) & env.le(vals[i], bounds[i][1]), key="instr_bounds")
        d = s - tot
        env.claim("amounts_meet_total", env.le(d, 1e-8 + 1e-5 * tot, 0) & env.ge(d, -(1e-8 + 1e-5 * tot), 0), key="instr_total")

    return body


def multi_year_body(n=2, unsorted=False):
    """A total-spend constraint applying in two years: every constrained year meets its own total and bounds"""

    def body(env):
        import scipy
        import atomica.optimization as ao
        import atomica.programs as ap
        import atomica.utils as au

        patches = shim.patches_for(ao, ap, au)
        patches = _slsqp_patches(env, ao, n, scipy, patches)
        years = [2022.0, 2020.0] if unsorted else [2020.0, 2022.0]  # as listed by the user (the bounds below are per listed year)
        names = ["P%d" % i for i in range(n)]
        with env.installed(patches):
            spends = {y: [env.real("spend%d@%g" % (i, y), 0, VMAX) for i in range(n)] for y in years}
            instr = ap.ProgramInstructions(start_year=2019.0, alloc={nm: au.TimeSeries(t=years, vals=[spends[y][i] for y in years]) for i, nm in enumerate(names)})
            bounds = []
            adjs = []
            for i, nm in enumerate(names):
                los = [env.real("lower%d@%g" % (i, y), 0, VMAX) for y in years]
                his = [env.real("upper%d@%g" % (i, y), 0, VMAX) for y in years]
                for lo, hi in zip(los, his):
                    env.assume(env.b(lo <= hi), "lower <= upper")
                adjs.append(ao.SpendingAdjustment(nm, years, "abs", list(los), list(his)))
                bounds.append(dict(zip(years, zip(los, his))))
            tots = [env.real("total@%g" % y, 1e-3, VMAX) for y in years]
            con = ao.TotalSpendConstraint(total_spend=tots, t=years)
            opt = ao.Optimization(name="o", adjustments=adjs, measurables=[], constraints=[con])
            try:
                hc = con.get_hard_constraint(opt, instr)
            except ao.UnresolvableConstraint:
                return
            prop = {y: [env.real("proposal%d@%g" % (i, y), 0, VMAX) for i in range(n)] for y in years}
            for y in years:
                for i, nm in enumerate(names):
                    instr.alloc[nm].insert(y, prop[y][i])
            try:
                con.constrain_instructions(instr, hc, opt)
            except (ao.FailedConstraint, AssertionError):
                return
            vals = {y: [instr.alloc[nm].get(y) for nm in names] for y in years}
        for k, y in enumerate(years):
            s = 0.0
            for i in range(n):
                s = s + vals[y][i]
                env.claim("amount_within_bounds_%d@%g" % (i, y), env.ge(vals[y][i], bounds[i][y][0]) & env.le(vals[y][i], bounds[i][y][1]), key="instr_bounds[year %d]" % k)
            d = s - tots[k]
            env.claim("amounts_meet_total@%g" % y, env.le(d, 1e-8 + 1e-5 * tots[k], 0) & env.ge(d, -(1e-8 + 1e-5 * tots[k]), 0), key="instr_total[year %d]" % k)

    return body


def mixed_body():
    """A package with an adjustable total (two members) next to a plain adjustment under a total-spend constraint: the package receives
    the amount the constraint assigns to it and its members keep their shares"""

    def body(env):
        import scipy
        import atomica.optimization as ao
        import atomica.programs as ap
        import atomica.utils as au

        patches = shim.patches_for(ao, ap, au)
        patches = _slsqp_patches(env, ao, 2, scipy, patches)
        t = 2020.0
        init = [10.0, 30.0]
        with env.installed(patches):
            pk = ao.SpendingPackageAdjustment("pkg", t, ["A", "B"], np.array(init), min_props=[0.1, 0.1], max_props=[0.9, 0.9], min_total_spend=5.0, max_total_spend=200.0)
            lo = env.real("lowerC", 0, 100)
            hi = env.real("upperC", 0, 300)
            env.assume(env.b(lo <= hi), "lower <= upper")
            plain = ao.SpendingAdjustment("C", t, "abs", lo, hi)
            c0 = env.real("spendC", 0, 300)
            instr = ap.ProgramInstructions(start_year=2019.0, alloc={"A": au.TimeSeries(t=[t], vals=[init[0]]), "B": au.TimeSeries(t=[t], vals=[init[1]]), "C": au.TimeSeries(t=[t], vals=[c0])})
            tot = env.real("total_spend", 1.0, 400)
            con = ao.TotalSpendConstraint(total_spend=tot, t=t)
            opt = ao.Optimization(name="o", adjustments=[pk, plain], measurables=[], constraints=[con])
            try:
                hc = con.get_hard_constraint(opt, instr)
            except ao.UnresolvableConstraint:
                return
            # proposal: member amounts and the plain program's amount
            a1 = env.real("proposalA", 0.5, 150)
            b1 = env.real("proposalB", 0.5, 150)
            c1 = env.real("proposalC", 0, 300)
            instr.alloc["A"].insert(t, a1)
            instr.alloc["B"].insert(t, b1)
            instr.alloc["C"].insert(t, c1)
            try:
                con.constrain_instructions(instr, hc, opt)
            except (ao.FailedConstraint, AssertionError):
                return
            a2, b2, c2 = instr.alloc["A"].get(t), instr.alloc["B"].get(t), instr.alloc["C"].get(t)
        d = a2 + b2 + c2 - tot
        env.claim("amounts_meet_total", env.le(d, 1e-8 + 1e-5 * tot, 0) & env.ge(d, -(1e-8 + 1e-5 * tot), 0), key="mixed_total")
        env.claim("package_total_within_its_limits", env.ge(a2 + b2, 5.0) & env.le(a2 + b2, 200.0), key="mixed_package_limits")
        env.claim("plain_amount_within_bounds", env.ge(c2, lo) & env.le(c2, hi), key="mixed_bounds")
        # rescaling the package total keeps each member's share of the package
        env.claim("package_shares_kept", env.eq(a2 * (a1 + b1), a1 * (a2 + b2)) & env.eq(b2 * (a1 + b1), b1 * (a2 + b2)), key="mixed_shares")

    return body


def paired_mixed_body():
    """A paired (parametric) adjustment next to a plain bounded one under a total-spend constraint: the paired programs have no
    explicit bounds, but spending can never become negative"""

    def body(env):
        import scipy
        import atomica.optimization as ao
        import atomica.programs as ap
        import atomica.utils as au

        patches = shim.patches_for(ao, ap, au)
        patches = _slsqp_patches(env, ao, 3, scipy, patches)
        t = 2020.0
        with env.installed(patches):
            sp = {nm: env.real("spend%s" % nm, 0, VMAX) for nm in ("A", "B", "C")}
            instr = ap.ProgramInstructions(start_year=2019.0, alloc={nm: au.TimeSeries(t=[t], vals=[v]) for nm, v in sp.items()})
            lo = env.real("lowerC", 0, VMAX)
            hi = env.real("upperC", 0, VMAX)
            env.assume(env.b(lo <= hi), "lower <= upper")
            adjs = [ao.PairedLinearSpendingAdjustment(["A", "B"], [t, t + 2.0]), ao.SpendingAdjustment("C", t, "abs", lo, hi)]
            tot = env.real("total_spend", 1e-3, VMAX)
            con = ao.TotalSpendConstraint(total_spend=tot, t=t)
            opt = ao.Optimization(name="o", adjustments=adjs, measurables=[], constraints=[con])
            try:
                hc = con.get_hard_constraint(opt, instr)
            except ao.UnresolvableConstraint:
                return
            prop = {nm: env.real("proposal%s" % nm, 0, VMAX) for nm in ("A", "B", "C")}
            for nm, v in prop.items():
                instr.alloc[nm].insert(t, v)
            try:
                con.constrain_instructions(instr, hc, opt)
            except (ao.FailedConstraint, AssertionError):
                return
            vals = {nm: instr.alloc[nm].get(t) for nm in ("A", "B", "C")}
        s = vals["A"] + vals["B"] + vals["C"]
        d = s - tot
        env.claim("amounts_meet_total", env.le(d, 1e-8 + 1e-5 * tot, 0) & env.ge(d, -(1e-8 + 1e-5 * tot), 0), key="paired_mixed_total")
        env.claim("plain_amount_within_bounds", env.ge(vals["C"], lo) & env.le(vals["C"], hi), key="paired_mixed_bounds")
        for nm in ("A", "B"):
            env.claim("paired_program_spending_nonnegative_%s" % nm, env.ge(vals[nm], 0.0), key="paired_mixed_nonneg")

    return body


def package_body(n, adjust_total):
    def body(env):
        import scipy
        import atomica.optimization as ao
        import atomica.programs as ap
        import atomica.utils as au

        names = ["P%d" % i for i in range(n)]
        init = [10.0 * (i + 1) for i in range(n)]  # concrete initial spends (the constructor validates them concretely)
        tot0 = sum(init)
        minp = [0.05] * n
        maxp = [0.9] * n
        patches = shim.patches_for(ao, ap, au)
        patches = _slsqp_patches(env, ao, n, scipy, patches)
        pk = ao.SpendingPackageAdjustment("pkg", 2020.0, names, np.array(init), min_props=minp, max_props=maxp, min_total_spend=tot0 * 0.5 if adjust_total else None, max_total_spend=tot0 * 2 if adjust_total else None)
        with env.installed(patches):
            instr = ap.ProgramInstructions(start_year=2019.0, alloc={nm: au.TimeSeries(t=[2020.0], vals=[v]) for nm, v in zip(names, init)})
            fr = [env.real("frac%d" % i, 0.0, 1.5) for i in range(n)]  # any non-negative proposal, also outside the members' proportion limits
            vals = fr + ([env.real("package_spend", tot0 * 0.5, tot0 * 2)] if adjust_total else [])
            try:
                pk.update_instructions(env.array(vals), instr)
            except (ao.FailedConstraint, AssertionError):
                return
            out = [instr.alloc[nm].get(2020.0) for nm in names]
        total = vals[-1] if adjust_total else tot0
        s = 0.0
        for i in range(n):
            s = s + out[i]
            env.claim("share_within_min_%d" % i, env.ge(out[i], minp[i] * total, 1e-6), key="package_share")
            env.claim("share_within_max_%d" % i, env.le(out[i], maxp[i] * total, 1e-6), key="package_share")
        d = s - total
        env.claim("package_total", env.le(d, (1e-8 + 1e-5) * total, 0) & env.ge(d, -(1e-8 + 1e-5) * total, 0), key="package_total")
        if adjust_total:
            env.claim("package_total_within_limits", env.ge(total, tot0 * 0.5, 0) & env.le(total, tot0 * 2, 0), key="package_limits")

    return body


def paired_body():
    def body(env):
        import atomica.optimization as ao
        import atomica.programs as ap
        import atomica.utils as au

        a0 = env.real("spendA", 0, VMAX)
        b0 = env.real("spendB", 0, VMAX)
        g = env.real("gradient", -VMAX, VMAX)
        with env.installed(shim.patches_for(ao, ap, au) + ([(ao.__dict__, "float", shim.sfloat)] if env.symbolic else [])):
            instr = ap.ProgramInstructions(start_year=2019.0, alloc={"A": au.TimeSeries(t=[2020.0], vals=[a0]), "B": au.TimeSeries(t=[2020.0], vals=[b0])})
            adj = ao.PairedLinearSpendingAdjustment(["A", "B"], [2020.0, 2022.0])
            adj.update_instructions([g], instr)
            a1 = instr.alloc["A"].get(2022.0)
            b1 = instr.alloc["B"].get(2022.0)
        env.claim("pair_total_conserved", env.eq(a1 + b1, a0 + b0), key="paired_total")
        env.claim("pair_nonnegative", env.ge(a1, 0.0) & env.ge(b1, 0.0), key="paired_nonneg")

    return body


def _funcs():
    import atomica.optimization as ao

    return [ao.constrain_sum_bounded, ao.TotalSpendConstraint.get_hard_constraint, ao.TotalSpendConstraint.constrain_instructions, ao.TotalSpendConstraint.__init__, ao.Adjustable.get_hard_bounds, ao.SpendingAdjustment.__init__, ao.SpendingPackageAdjustment.update_instructions, ao.SpendingPackageAdjustment.set_total_spend, ao.PairedLinearSpendingAdjustment.update_instructions]


def specs(tier):
    out = []
    for n in ((2,) if tier == "quick" else (2, 3)):
        for infu in (False, True):
            out.append(("constrain_sum_bounded[n=%d;%s]" % (n, "inf upper" if infu else "finite"), csb_body, dict(n=n, inf_upper=infu), ("FailedConstraint", "AssertionError")))
    for lt in ("abs", "rel"):
        for et in (False, True):
            for fac in (False, True):
                out.append(("hard_constraint[n=2;%s;explicit=%d;factor=%d]" % (lt, et, fac), hard_constraint_body, dict(n=2, limit_type=lt, explicit_total=et, factor=fac), ("UnresolvableConstraint",)))
    out.append(("constrain_instructions[n=2;abs]", constrain_instructions_body, dict(n=2, limit_type="abs"), ("FailedConstraint", "AssertionError", "UnresolvableConstraint")))
    out.append(("constrain_instructions[n=2;two constrained years]", multi_year_body, dict(n=2), ("FailedConstraint", "AssertionError", "UnresolvableConstraint")))
    out.append(("constrain_instructions[n=2;two constrained years listed in descending order;per-year bounds]", multi_year_body, dict(n=2, unsorted=True), ("FailedConstraint", "AssertionError", "UnresolvableConstraint")))
    out.append(("constrain_instructions[paired adjustment + plain program]", paired_mixed_body, dict(), ("FailedConstraint", "AssertionError", "UnresolvableConstraint")))
    out.append(("constrain_instructions[package with adjustable total + plain program]", mixed_body, dict(), ("FailedConstraint", "AssertionError", "UnresolvableConstraint")))
    out.append(("package[n=2;fixed total]", package_body, dict(n=2, adjust_total=False), ("FailedConstraint", "AssertionError")))
    out.append(("package[n=2;adjustable total]", package_body, dict(n=2, adjust_total=True), ("FailedConstraint", "AssertionError")))
    out.append(("paired", paired_body, dict(), ()))
    if tier != "quick":
        out.append(("constrain_instructions[n=2;rel]", constrain_instructions_body, dict(n=2, limit_type="rel"), ("FailedConstraint", "AssertionError", "UnresolvableConstraint")))
        out.append(("package[n=3;adjustable total]", package_body, dict(n=3, adjust_total=True), ("FailedConstraint", "AssertionError")))
    return out


def groups(tier):
    gs = []
    for nm, fac, kw, exc in specs(tier):
        body = fac(**kw)

        def g(tier_, seed, _b=body, _nm=nm, _kw=kw, _exc=exc):
            return run_body(_b, _nm, tier_, seed, functions=_funcs(), bounds=_kw, stubs=["scipy.optimize.minimize (SLSQP) -> nondeterministic stub: arbitrary vector in [-10,10]^n and arbitrary success flag", "numpy/sciris in atomica.optimization, programs, utils -> vsym shims"], timeout_ms=120000, declared_exceptions=_exc, max_paths=4000)

        g.__name__ = nm
        gs.append(g)
    return gs


def replay(rec):
    for nm, fac, kw, exc in specs("thorough"):
        if nm == rec["replay"]["group"]:
            return replay_body(fac(**kw), rec["model"], rec["replay"]["claim"])
    return False, "unknown group"
