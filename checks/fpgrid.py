"""
IEEE-754 / rounding-model groups for C03(b) (simulation time grid) and C05(a) (keyring size ceil(D/dt)).

The real code objects of ProjectSettings.__init__/sim_end.setter/sim_dt.setter/tvec/update_time_vector and of
TimedCompartment.preallocate / TimedLink.preallocate are re-bound to stub globals (np.ceil, np.linspace, np.empty, np.all,
math.ceil, int, max) and executed on float proxies (vsym.fp).
"""

import math
import time
import types
import z3
from vsym import fp
from vsym.core import Ctx, explore, SB, HarnessError
from vsym.report import stats_of


def _rebind(f, g):
    return types.FunctionType(f.__code__, g, f.__name__, f.__defaults__, f.__closure__)


def rebound_class(cls, stubs):
    """A copy of cls whose methods/properties run the *same code objects* with `stubs` overriding module globals"""
    ns = {}
    for name, attr in cls.__dict__.items():
        if isinstance(attr, property):
            g = None
            fget = attr.fget
            g = dict(fget.__globals__)
            g.update(stubs)
            ns[name] = property(_rebind(attr.fget, g) if attr.fget else None, _rebind(attr.fset, g) if attr.fset else None)
        elif isinstance(attr, types.FunctionType):
            g = dict(attr.__globals__)
            g.update(stubs)
            ns[name] = _rebind(attr, g)
    return type(cls.__name__ + "Sym", (object,), ns)


def _solve(s, timeout_ms):
    s.set("timeout", int(timeout_ms))
    t = time.time()
    r = s.check()
    return str(r), time.time() - t


def _fp_check(name, assertions, negated_claim, timeout_ms, inputs):
    """One obligation in IEEE mode: fresh solver; `unknown` falls back to the binaries via SMT-LIB2"""
    from vsym.core import Obligation, portfolio, _short

    ob = Obligation(name)
    s = z3.Solver()
    for a in assertions:
        s.add(a)
    s.add(negated_claim)
    st, dt = _solve(s, timeout_ms)
    how = "z3-%s" % z3.get_version_string()
    model = None
    if st == "sat":
        m = s.model()
        model = {k: repr(fp.model_double(m, v)) for k, v in inputs.items()}
    elif st == "unknown":
        import subprocess, tempfile, os, re

        d = tempfile.mkdtemp(prefix="vsymfp_")
        try:
            path = os.path.join(d, "q.smt2")
            with open(path, "w") as f:
                f.write("(set-logic QF_FP)\n" + s.to_smt2())
            secs = max(1, int(timeout_ms / 1000))
            for nm, cmd in [("z3-4.8.12", ["/usr/bin/z3", "-T:%d" % secs, path]), ("cvc5-1.0.3", ["cvc5", "--tlimit=%d" % (secs * 1000), path])]:
                try:
                    out = subprocess.run(cmd, capture_output=True, text=True, timeout=secs + 10).stdout
                except Exception:
                    continue
                first = out.strip().splitlines()[0].strip() if out.strip() else ""
                if "(error" in out:
                    continue
                if first == "unsat":
                    st, how = "unsat", nm
                    break
        finally:
            import shutil

            shutil.rmtree(d, ignore_errors=True)
    ob.status = st
    ob.time = dt
    ob.model = model
    ob.nontrivial = True
    ob.size = 50
    ob.text = _short(negated_claim, 200)
    ob.meta = dict(solver=how, mode="IEEE-754 binary64 (QF_FP)")
    return ob


# ---------------------------------------------------------------------------------------------------------------
# C03(b): time grid
# ---------------------------------------------------------------------------------------------------------------


def grid_replay(start, end, dt):
    """Concrete check of the grid property on the real ProjectSettings. Returns (violated, detail)"""
    import numpy as np
    import atomica.project as aproj

    st = aproj.ProjectSettings(sim_start=start, sim_end=end, sim_dt=dt)
    tv = st.tvec
    n_expected = math.ceil((end - start) / dt)
    k = np.arange(len(tv))
    err = np.max(np.abs(tv - (start + k * dt))) if len(tv) else 0.0
    bad_n = (len(tv) - 1) != n_expected
    bad_grid = err > 1e-9
    return bool(bad_n or bad_grid), "len(tvec)-1=%d, ceil((end-start)/dt)=%d, max|t_k-(start+k*dt)|=%.3g, spacing=%r" % (len(tv) - 1, n_expected, err, (tv[1] - tv[0]) if len(tv) > 1 else None)


def grid_ieee_group(start, end, dt_lo, dt_hi, timeout_s, best_effort=False):
    def g(tier, seed):
        import atomica.project as aproj

        t0 = time.time()
        res = dict(name=g.__name__, functions=[aproj.ProjectSettings.__init__, aproj.ProjectSettings.sim_end.fset, aproj.ProjectSettings.tvec.fget, aproj.ProjectSettings.update_time_vector], bounds=dict(start=start, end=end, dt=[dt_lo, dt_hi], arithmetic="IEEE-754 binary64, RNE"), stubs=["np.ceil -> fp.roundToIntegral RTP; int -> RTZ; round -> RNE; np.linspace -> (start, stop, num) record"], assumptions=["dt in [%r, %r]" % (dt_lo, dt_hi)], obligations=[], violations=[], errors=[], witnesses=0, stats={})
        PS = rebound_class(aproj.ProjectSettings, dict(np=fp.FNumpy(), int=fp.f_int))
        dtv = z3.FP("dt", fp.F64)
        base = [z3.fpGEQ(dtv, fp.fv(dt_lo)), z3.fpLEQ(dtv, fp.fv(dt_hi))]
        results = []

        def run(ctx):
            st = PS(sim_start=start, sim_end=end, sim_dt=fp.SF(dtv))
            grid = st.tvec
            n_spec = z3.fpRoundToIntegral(z3.RTP(), z3.fpDiv(fp.RNE, fp.fv(end - start), dtv))
            num = fp.SF.L(grid.num)
            claim = z3.fpEQ(num, z3.fpAdd(fp.RNE, n_spec, fp.fv(1.0)))
            ob = _fp_check("grid_has_ceil_span_over_dt_steps", base + list(ctx.pc), z3.Not(claim), timeout_s * 1000, dict(dt=dtv))
            ob.meta["key"] = "grid_count"
            results.append(ob)
            return True

        st = explore(run, feasibility=False, seed=seed)
        res["stats"] = stats_of(st)
        res["obligations"] = [o.as_dict() for o in results]
        for o in results:
            if o.status == "sat":
                dt = float(o.model["dt"])
                bad, detail = grid_replay(start, end, dt)
                if bad:
                    res["violations"].append(dict(key="grid[%s,%s]:grid_count" % (start, end), what="ProjectSettings(%r,%r,%r): %s" % (start, end, dt, detail), model=o.model, obligations=[o.name], replay=dict(group="grid", start=start, end=end, dt=dt)))
                else:
                    res["errors"].append("IEEE counterexample dt=%r does not reproduce: %s" % (dt, detail))
            elif o.status != "unsat":
                if best_effort:
                    res.setdefault("notes", []).append("IEEE slice inconclusive within %ds (the claim is decided by the rounding-model group)" % timeout_s)
                else:
                    res["errors"].append("IEEE query %s inconclusive (%s)" % (o.name, o.status))
        if best_effort:
            res["obligations"] = [o for o in res["obligations"] if o["status"] in ("unsat", "sat")]
        # witness: a representable dt that divides the span
        bad, detail = grid_replay(start, end, 0.25)
        if not bad:
            res["witnesses"] += 1
        else:
            res["errors"].append("witness dt=0.25 violates the grid property: " + detail)
        res["wall_s"] = round(time.time() - t0, 2)
        return res

    g.__name__ = "grid_ieee[%s-%s;dt=%.4g..%.4g]" % (start, end, dt_lo, dt_hi)
    return g


def grid_model_group():
    """Rounding-model proof (all start/end/dt within magnitude bounds, any number of steps up to 2**20)"""

    def g(tier, seed):
        import atomica.project as aproj

        t0 = time.time()
        res = dict(name=g.__name__, functions=[aproj.ProjectSettings.__init__, aproj.ProjectSettings.sim_end.fset, aproj.ProjectSettings.tvec.fget, aproj.ProjectSettings.update_time_vector], bounds=dict(start="[1900,2100]", span="[0,200]", dt="[1/512,8]", steps="<= 2**17", arithmetic="(1+d) rounding model, |d|<=2**-53 per operation"), stubs=["np.ceil/int/round -> exact integer cuts with their defining inequalities; np.linspace -> record"], assumptions=["doubles are normal and do not overflow (magnitude bounds)", "start in [1900,2100], 0 <= end-start <= 200, dt in [1/512,8], steps <= 2**17"], obligations=[], violations=[], errors=[], witnesses=0, stats={})
        PS = rebound_class(aproj.ProjectSettings, dict(np=fp.MNumpy(), int=fp.m_int))
        obs = []

        def run(ctx):
            fp.model_reset()
            start = z3.Real("start")
            end = z3.Real("end")
            dt = z3.Real("dt")
            ctx.inputs.update(start=start, end=end, dt=dt)
            base = [start >= 1900, start <= 2100, end >= start, end - start <= 200, dt >= z3.RealVal("1/512"), dt <= 8]
            st = PS(sim_start=fp.SM(start), sim_end=fp.SM(end), sim_dt=fp.SM(dt))
            grid = st.tvec
            # the integer cut produced by np.ceil in the setter is the first one; the one produced by tvec is the last
            cuts = [f for f in fp.SMInt.facts]
            n_ceil = z3.Int("ceil!1")
            num = grid.num
            for c in base + fp.model_constraints() + [n_ceil <= 2**17]:
                ctx.solver.add(c)
            ob = ctx.prove("grid_count_equals_ceil_steps", num.e == z3.ToReal(n_ceil) + 1, meta=dict(key="grid_count_model"))
            obs.append(ob)
            # end point: first grid point at or after the requested end (tolerance 1e-9)
            stop = grid.stop
            ob2 = ctx.prove("grid_end_at_or_after_requested_end", z3.And(stop.e >= end - z3.RealVal("1/1000000000"), stop.e - dt < end + z3.RealVal("1/1000000000")), meta=dict(key="grid_end_model"))
            obs.append(ob2)
            ctx.reachable("path-reachable")
            return True

        st = explore(run, feasibility=False, seed=seed, timeout_ms=120000)
        res["stats"] = stats_of(st)
        res["obligations"] = [o.as_dict() for o in st["obligations"]]
        sat = [o for o in obs if o.status == "sat"]
        if sat:
            # A rounding-model `sat` may be an artefact: look for a bit-exact counterexample in IEEE mode and replay it
            found = False
            for (a, b) in [(2000.0, 2035.0), (2000.0, 2001.0), (2014.0, 2020.0)]:
                r = grid_ieee_group(a, b, 1.0 / 365, 5.0, 120)(tier, seed)
                if r["violations"]:
                    for v in r["violations"]:
                        v["obligations"] = [o.name for o in sat]
                    res["violations"] += r["violations"]
                    found = True
                    break
            if not found:
                res["errors"].append("rounding-model obligation sat (%s) but no bit-exact counterexample found within the IEEE budget: inconclusive" % [o.name for o in sat])
        res["wall_s"] = round(time.time() - t0, 2)
        return res

    g.__name__ = "grid_rounding_model"
    return g


def grid_update_replay(start, end, dt, with_start=True):
    """Concrete check of the grid property through ProjectSettings.update_time_vector on default settings"""
    import numpy as np
    from fractions import Fraction
    import atomica.project as aproj

    st = aproj.ProjectSettings()
    if with_start:
        st.update_time_vector(start=start, end=end, dt=dt)
    else:
        st.update_time_vector(end=end, dt=dt)
        start = st.sim_start
    tv = st.tvec
    q = (Fraction(end) - Fraction(start)) / Fraction(dt)
    n_expected = math.ceil(q - Fraction(1, 10**9))  # a quotient within 1e-9 of an integer counts as that integer
    k = np.arange(len(tv))
    err = np.max(np.abs(tv - (start + k * dt))) if len(tv) else 0.0
    bad = (len(tv) - 1) != n_expected or err > 1e-9
    return bool(bad), "update_time_vector(%s%r, %r) on default settings: len(tvec)-1=%d, expected %d steps, max|t_k-(start+k*dt)|=%.3g, last=%r" % (("%r, " % start) if with_start else "end=", end, dt, len(tv) - 1, n_expected, err, tv[-1] if len(tv) else None)


def grid_update_model_group(with_start=True):
    """Rounding-model proof for the other entry point: update_time_vector(start, end, dt) on existing (default) settings"""

    def g(tier, seed):
        import atomica.project as aproj

        t0 = time.time()
        res = dict(name=g.__name__, functions=[aproj.ProjectSettings.update_time_vector, aproj.ProjectSettings.sim_end.fset, aproj.ProjectSettings.sim_dt.fset, aproj.ProjectSettings.tvec.fget], bounds=dict(previous="ProjectSettings() defaults (2000, 2035, 0.25)", start="[1900,2100]" if with_start else "2000 (kept)", span="[0,200]", dt="[1/512,8]", steps="<= 2**17", arithmetic="(1+d) rounding model, |d|<=2**-53 per operation"), stubs=["np.ceil/int/round -> exact integer cuts with their defining inequalities; np.linspace -> record"], assumptions=["doubles are normal and do not overflow (magnitude bounds)", "0 <= end-start <= 200, dt in [1/512,8], steps <= 2**17"], obligations=[], violations=[], errors=[], witnesses=0, stats={})
        PS = rebound_class(aproj.ProjectSettings, dict(np=fp.MNumpy(), int=fp.m_int))
        obs = []

        def run(ctx):
            fp.model_reset()
            start = z3.Real("start") if with_start else z3.RealVal(2000)
            end = z3.Real("end")
            dt = z3.Real("dt")
            ctx.inputs.update(end=end, dt=dt)
            if with_start:
                ctx.inputs.update(start=start)
            base = [start >= 1900, start <= 2100, end >= start, end - start <= 200, dt >= z3.RealVal("1/512"), dt <= 8]
            for c in base:
                ctx.solver.add(c)
            st = PS()
            try:
                if with_start:
                    st.update_time_vector(start=fp.SM(start), end=fp.SM(end), dt=fp.SM(dt))
                else:
                    st.update_time_vector(end=fp.SM(end), dt=fp.SM(dt))
            except AssertionError as e:
                # an assertion of the code under test (e.g. `sim_dt > 0`): a defect only if some admissible input reaches it
                for c in fp.model_constraints():
                    ctx.solver.add(c)
                obs.append(ctx.prove("no_assertion_fails[%s]" % e, z3.BoolVal(False), meta=dict(key="assertion")))
                return True
            n_cuts = fp.SMInt.n[0]  # the last integer cut before tvec is the np.ceil of the (last) sim_end assignment
            grid = st.tvec
            n_ceil = z3.Int("ceil!%d" % n_cuts)
            for c in base + fp.model_constraints() + [z3.Int("ceil!%d" % i) <= 2**17 for i in range(1, n_cuts + 1)]:
                ctx.solver.add(c)
            eps = z3.RealVal("1/1000000000")
            stop, num = grid.stop, grid.num
            obs.append(ctx.prove("grid_count_equals_ceil_steps", num.e == z3.ToReal(n_ceil) + 1, meta=dict(key="grid_count_model")))
            obs.append(ctx.prove("grid_end_is_first_point_at_or_after_requested_end", z3.And(stop.e >= end - eps, stop.e - dt < end + eps), meta=dict(key="grid_end_model")))
            ctx.reachable("path-reachable")
            return True

        st = explore(run, feasibility=False, seed=seed, timeout_ms=120000)
        res["stats"] = stats_of(st)
        res["obligations"] = [o.as_dict() for o in st["obligations"]]
        for o in obs:
            if o.status == "sat":
                from fractions import Fraction

                vals = {k: float(Fraction(v)) for k, v in o.model.items() if k in ("start", "end", "dt")}
                bad, detail = grid_update_replay(vals.get("start", 2000.0), vals["end"], vals["dt"], with_start)
                if bad:
                    res["violations"].append(dict(key="%s:%s" % (g.__name__, o.meta.get("key")), what=detail, model=o.model, obligations=[o.name], replay=dict(group="grid_update", start=vals.get("start", 2000.0), end=vals["end"], dt=vals["dt"], with_start=with_start)))
                else:
                    res["errors"].append("rounding-model obligation %s sat but its model does not reproduce in IEEE arithmetic (%s): inconclusive" % (o.name, detail))
        bad, detail = grid_update_replay(2016.0, 2020.125, 0.125, with_start)
        if not bad:
            res["witnesses"] += 1
        else:
            res["errors"].append("witness violates the grid property: " + detail)
        res["wall_s"] = round(time.time() - t0, 2)
        return res

    g.__name__ = "grid_update_rounding_model[%s]" % ("start,end,dt" if with_start else "end,dt")
    return g


# ---------------------------------------------------------------------------------------------------------------
# C05(a): keyring size
# ---------------------------------------------------------------------------------------------------------------


class _Rec:
    def __init__(self, shape):
        self.shape = shape

    def fill(self, v):
        pass


class _NPRows:
    """numpy stub for preallocate: records the requested shape"""

    nan = float("nan")

    def all(self, x):
        return True

    def empty(self, shape, order=None):
        return _Rec(shape)


class _Par:
    def __init__(self, v, timescale=1.0, scale_factor=1.0):
        self.vals = _Vals(v)
        self.timescale = timescale
        self.scale_factor = scale_factor
        self.name = "dur"


class _Vals:
    def __init__(self, v):
        self.v = v

    def __getitem__(self, i):
        return self.v

    def __eq__(self, o):
        return True


class _TV:
    size = 3


def keyring_rows(am, D, dt, mode, timescale=1.0, scale_factor=1.0, junction_link=False):
    """Run the real preallocate code on proxies; returns the requested number of rows"""
    stubs = dict(np=_NPRows(), math=fp.FMath() if mode == "ieee" else fp.MMath(), max=fp.f_max if mode == "ieee" else fp.m_max, int=fp.f_int if mode == "ieee" else fp.m_int)
    if not junction_link:
        f = am.TimedCompartment.preallocate
        g = dict(f.__globals__)
        g.update(stubs)
        obj = types.SimpleNamespace(parameter=_Par(D, timescale, scale_factor), t=None, dt=None, _vals=None)
        _rebind(f, g)(obj, _TV(), dt)
        return obj._vals.shape[0]
    f = am.TimedLink.preallocate
    g = dict(f.__globals__)
    g.update(stubs)
    g["isinstance"] = lambda o, c: False if c is am.TimedCompartment else isinstance(o, c)
    par = _Par(D, timescale, scale_factor)
    obj = types.SimpleNamespace(source=types.SimpleNamespace(duration_group="dur"), pop=types.SimpleNamespace(par_lookup={"dur": par}), t=None, dt=None, _vals=None)
    _rebind(f, g)(obj, _TV(), dt)
    return obj._vals.shape[0]


def keyring_replay(D, dt):
    """Concrete: rows allocated by the real TimedCompartment.preallocate for duration D and step dt"""
    import numpy as np
    import atomica.model as am

    pop = types.SimpleNamespace(name="pop")
    par = am.Parameter(pop, "dur")
    par.vals = np.array([D, D])
    tc = am.TimedCompartment(pop, "tc", par)
    tc.preallocate(np.array([0.0, dt]), dt)
    return tc._vals.shape[0]


def keyring_ieee_group(kind, timeout_s, junction_link=False, best_effort=False, krange=(1.0, 64.0)):
    """
    kind 'multiple': D = fl(k*dt), k integer in [1,64], dt in [1/365,5]           -> rows must be k
    kind 'fraction': D = fl(k/m), dt = fl(1/m), k in [1,64], m in [1,400] integers -> rows must be k
    kind 'general' : arbitrary D in [1e-3,100], dt in [1/365,5]                    -> rows >= 1, (rows-1)*dt < D*(1+1e-9)
    """

    def g(tier, seed):
        import atomica.model as am

        t0 = time.time()
        res = dict(name=g.__name__, functions=[am.TimedCompartment.preallocate, am.TimedLink.preallocate], bounds=dict(kind=kind, arithmetic="IEEE-754 binary64, RNE", k="1..64", m="1..400", dt="[1/365,5]"), stubs=["math.ceil -> roundToIntegral RTP; max -> If-term; np.empty -> shape record; np.all(duration constant) -> True"], assumptions=[], obligations=[], violations=[], errors=[], witnesses=0, stats=dict(paths=1, queries=0, solver_time=0.0))
        dtv = z3.FP("dt", fp.F64)
        Dv = z3.FP("D", fp.F64)
        kv = z3.FP("k", fp.F64)
        mv = z3.FP("m", fp.F64)
        integral = lambda v: z3.fpEQ(v, z3.fpRoundToIntegral(fp.RNE, v))
        if kind == "multiple":
            base = [z3.fpGEQ(dtv, fp.fv(1.0 / 365)), z3.fpLEQ(dtv, fp.fv(5.0)), integral(kv), z3.fpGEQ(kv, fp.fv(krange[0])), z3.fpLEQ(kv, fp.fv(krange[1])), z3.fpEQ(Dv, z3.fpMul(fp.RNE, kv, dtv))]
            inputs = dict(dt=dtv, D=Dv, k=kv)
        elif kind == "fraction":
            base = [integral(kv), z3.fpGEQ(kv, fp.fv(krange[0])), z3.fpLEQ(kv, fp.fv(krange[1])), integral(mv), z3.fpGEQ(mv, fp.fv(1.0)), z3.fpLEQ(mv, fp.fv(400.0)), z3.fpEQ(Dv, z3.fpDiv(fp.RNE, kv, mv)), z3.fpEQ(dtv, z3.fpDiv(fp.RNE, fp.fv(1.0), mv))]
            inputs = dict(dt=dtv, D=Dv, k=kv, m=mv)
        else:
            base = [z3.fpGEQ(dtv, fp.fv(1.0 / 365)), z3.fpLEQ(dtv, fp.fv(5.0)), z3.fpGEQ(Dv, fp.fv(1e-3)), z3.fpLEQ(Dv, fp.fv(100.0))]
            inputs = dict(dt=dtv, D=Dv)
        rows = keyring_rows(am, fp.SF(Dv), fp.SF(dtv), "ieee", junction_link=junction_link)
        rows_e = fp.SF.L(rows)
        obs = []
        if kind in ("multiple", "fraction"):
            obs.append(_fp_check("rows_equal_k_when_D_is_k_steps", base, z3.Not(z3.fpEQ(rows_e, kv)), timeout_s * 1000, inputs))
            obs[-1].meta["key"] = "rows_eq_k[%s]" % kind
        else:
            c = z3.And(z3.fpGEQ(rows_e, fp.fv(1.0)), z3.fpLT(z3.fpMul(fp.RNE, z3.fpSub(fp.RNE, rows_e, fp.fv(1.0)), dtv), z3.fpMul(fp.RNE, Dv, fp.fv(1 + 1e-9))), z3.fpGEQ(z3.fpMul(fp.RNE, rows_e, dtv), z3.fpMul(fp.RNE, Dv, fp.fv(1 - 1e-9))))
            obs.append(_fp_check("rows_at_least_1_and_not_more_than_needed", base, z3.Not(c), timeout_s * 1000, inputs))
            obs[-1].meta["key"] = "rows_general"
        res["obligations"] = [o.as_dict() for o in obs]
        res["stats"]["queries"] = len(obs)
        res["stats"]["solver_time"] = round(sum(o.time for o in obs), 2)
        for o in obs:
            if o.status == "sat":
                D, dt = float(o.model["D"]), float(o.model["dt"])
                got = keyring_replay(D, dt)
                if kind in ("multiple", "fraction"):
                    k = int(float(o.model["k"]))
                    bad = got != k
                    detail = "D=%r dt=%r (D is %d steps up to rounding): real preallocate gives %d rows" % (D, dt, k, got)
                else:
                    bad = got < 1 or (got - 1) * dt >= D * (1 + 1e-9) or got * dt < D * (1 - 1e-9)
                    detail = "D=%r dt=%r: real preallocate gives %d rows, ceil(D/dt) = %d" % (D, dt, got, math.ceil(D / dt - 1e-9))
                if bad and not junction_link:
                    res["violations"].append(dict(key="keyring:%s" % o.meta["key"], what=detail, model=o.model, obligations=[o.name], replay=dict(group="keyring", D=D, dt=dt, k=o.model.get("k"))))
                elif bad:
                    res["violations"].append(dict(key="keyring_link:%s" % o.meta["key"], what=detail + " (TimedLink out of a junction)", model=o.model, obligations=[o.name], replay=dict(group="keyring", D=D, dt=dt, k=o.model.get("k"))))
                else:
                    res["errors"].append("IEEE counterexample does not reproduce: " + detail)
            elif o.status != "unsat":
                if best_effort:
                    res.setdefault("notes", []).append("IEEE slice inconclusive within %ds (the claim is decided by the rounding-model group)" % timeout_s)
                else:
                    res["errors"].append("IEEE query %s inconclusive (%s)" % (o.name, o.status))
        if best_effort:
            res["obligations"] = [o for o in res["obligations"] if o["status"] in ("unsat", "sat")]
        if keyring_replay(1.0, 0.25) == 4:
            res["witnesses"] += 1
        else:
            res["errors"].append("witness D=1, dt=0.25 does not give 4 rows")
        res["wall_s"] = round(time.time() - t0, 2)
        return res

    g.__name__ = "keyring_ieee[%s;k=%g..%g%s]" % (kind, krange[0], krange[1], ";junction-link" if junction_link else "")
    return g


def keyring_model_group(junction_link=False):
    """Rounding-model proof: D = fl(k*dt) or (fl(k/m), fl(1/m)) => rows == k, any k <= 2**20; symbolic timescale/scale factor"""

    def g(tier, seed):
        import atomica.model as am

        t0 = time.time()
        res = dict(name=g.__name__, functions=[am.TimedCompartment.preallocate, am.TimedLink.preallocate], bounds=dict(k="<= 2**20", dt="[1/4096, 16]", arithmetic="(1+d) rounding model"), stubs=["math.ceil -> exact integer cut; max -> If-term; np.empty -> shape record"], assumptions=["doubles are normal and do not overflow (magnitude bounds)"], obligations=[], violations=[], errors=[], witnesses=0, stats={})
        obs = []

        def run(ctx):
            for kind in ("multiple", "fraction"):
                fp.model_reset()
                ctx.solver.push()
                k = z3.Int("k")
                dt = z3.Real("dt")
                ctx.inputs.update(k=k, dt=dt)
                cs = [k >= 1, k <= 2**20]
                if kind == "multiple":
                    cs += [dt >= z3.RealVal("1/4096"), dt <= 16]
                    D = fp.SMInt(k) * fp.SM(dt)  # fl(k*dt)
                    dtp = fp.SM(dt)
                else:
                    m = z3.Int("m")
                    ctx.inputs["m"] = m
                    cs += [m >= 1, m <= 4096]
                    D = fp.SM(z3.ToReal(k)) / fp.SM(z3.ToReal(m))
                    dtp = 1.0 / fp.SM(z3.ToReal(m))
                rows = keyring_rows(am, D, dtp, "model", junction_link=junction_link)
                for c in cs + fp.model_constraints():
                    ctx.solver.add(c)
                ob = ctx.prove("rows_equal_k[%s]" % kind, fp.SM.L(rows) == z3.ToReal(k), meta=dict(key="rows_eq_k_model[%s]" % kind))
                obs.append(ob)
                ctx.reachable("reachable[%s]" % kind)
                ctx.solver.pop()
            # general durations: at least one row, and never a row more than the duration needs
            fp.model_reset()
            ctx.solver.push()
            Dv, dt, T, sf = z3.Real("D"), z3.Real("dt"), z3.Real("timescale"), z3.Real("scale_factor")
            ctx.inputs.update(D=Dv, dt=dt, timescale=T, scale_factor=sf)
            cs = [Dv >= z3.RealVal("1/1000"), Dv <= 100, dt >= z3.RealVal("1/4096"), dt <= 16, T >= z3.RealVal("1/1000"), T <= 10, sf >= z3.RealVal("1/100"), sf <= 100]
            rows = keyring_rows(am, fp.SM(Dv), fp.SM(dt), "model", timescale=fp.SM(T), scale_factor=fp.SM(sf), junction_link=junction_link)
            for c in cs + fp.model_constraints():
                ctx.solver.add(c)
            r = fp.SM.L(rows)
            # the duration in years is value x timescale (the calibration factor is already part of the parameter value, C06)
            claims = [(r - 1) * dt < Dv * T * (1 + z3.RealVal("1/1000000000")), r * dt >= Dv * T * (1 - z3.RealVal("1/1000000000"))]
            if not junction_link:
                claims.append(r >= 1)
            ob = ctx.prove("rows_cover_the_duration_and_no_more", z3.And(*claims), meta=dict(key="rows_general_model"))
            obs.append(ob)
            ctx.reachable("reachable[general]")
            ctx.solver.pop()
            return True

        st = explore(run, feasibility=False, seed=seed, timeout_ms=120000)
        res["stats"] = stats_of(st)
        res["obligations"] = [o.as_dict() for o in st["obligations"]]
        sat = [o for o in obs if o.status == "sat"]
        if sat:
            found = False
            for kind in ("fraction", "multiple", "general"):
                r = keyring_ieee_group(kind, 120, junction_link)(tier, seed)
                if r["violations"]:
                    for v in r["violations"]:
                        v["obligations"] = [o.name for o in sat]
                    res["violations"] += r["violations"]
                    found = True
                    break
            if not found:
                res["errors"].append("rounding-model obligation sat (%s) but no bit-exact counterexample found within the IEEE budget: inconclusive" % [o.name for o in sat])
        res["wall_s"] = round(time.time() - t0, 2)
        return res

    g.__name__ = "keyring_rounding_model%s" % (";junction-link" if junction_link else "")
    return g


def c03_fp_groups(tier):
    gs = [grid_model_group(), grid_update_model_group(True), grid_update_model_group(False)]
    if tier != "quick":
        # bit-exact bounded proofs on slices of the dt range (best effort: the rounding-model group decides the claim)
        import numpy as np

        edges = list(np.geomspace(1.0 / 365, 5.0, 13))
        for a, b in zip(edges, edges[1:]):
            gs.append(grid_ieee_group(2000.0, 2035.0, float(a), float(b), 240, best_effort=True))
    return gs


def c05_fp_groups(tier):
    gs = [keyring_model_group(False), keyring_model_group(True)]
    if tier != "quick":
        for kr in [(1.0, 4.0), (5.0, 12.0), (13.0, 24.0), (25.0, 64.0)]:
            gs.append(keyring_ieee_group("fraction", 240, best_effort=True, krange=kr))
            gs.append(keyring_ieee_group("multiple", 240, best_effort=True, krange=kr))
    return gs


def fp_replay(rec):
    r = rec["replay"]
    if r["group"] == "grid":
        return grid_replay(r["start"], r["end"], r["dt"])
    if r["group"] == "grid_update":
        return grid_update_replay(r["start"], r["end"], r["dt"], r.get("with_start", True))
    if r["group"] == "keyring":
        got = keyring_replay(r["D"], r["dt"])
        if r.get("k") is not None:
            k = int(float(r["k"]))
            return got != k, "D=%r dt=%r: %d rows allocated, %d expected" % (r["D"], r["dt"], got, k)
        return (got < 1 or (got - 1) * r["dt"] >= r["D"] * (1 + 1e-9) or got * r["dt"] < r["D"] * (1 - 1e-9)), "D=%r dt=%r: %d rows" % (r["D"], r["dt"], got)
    return None
