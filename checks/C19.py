"""
C19 -- parameter functions can only do arithmetic with whitelisted functions.

(a) acceptance: the real code object of atomica.function_parser.parse_function is re-bound to a namespace in which `ast`,
    `isinstance`, `hasattr`, `supported_functions`, `compile`, `_DivTransformer` are stubs, and executed on a *symbolic
    syntax tree*: a chain of nodes below Expression whose node kinds, the field through which each node hangs below its
    parent, identifier classes and constant classes are solver variables constrained by the grammar read from the running
    interpreter's `ast` module (ASDL signatures in the class docstrings).
(c) semantics: for enumerated operator-tree shapes with symbolic leaves the real compiled function is evaluated on proxies
    and compared with an independent evaluator; dep_list must equal the set of free names.
"""

import ast as real_ast
import re
import types
import itertools
import z3
from vsym.core import SB, SR, Ctx, explore, HarnessError, lift
from vsym.env import run_body, replay_body
from vsym import shim
from vsym.report import stats_of

TECHNIQUE = "symbolic execution of the real parse_function code object on a bounded symbolic syntax tree (node kinds, fields, identifier and constant classes as z3 variables under the interpreter's ASDL grammar); accepted-but-unsafe trees are concretised, unparsed and replayed through the real parse_function; semantics by symbolic execution of the real compiled function against an independent evaluator"
EXPLANATION = (
    "(a) The symbolic tree is Expression -> N1 -> ... -> Nd (d <= 3 quick, 4 thorough); each Ni's kind ranges over every expr class of the running interpreter plus "
    "keyword/comprehension/arguments/arg, the field it hangs from over every child-bearing field of its parent (grammar constraint from the ASDL docstrings), identifiers over "
    "{whitelisted function, plain name, name with ':' (rewritten to ___), name with a dunder}, constants over {int,float,bool,str,bytes,None,Ellipsis,complex}; all other positions hold "
    "minimal valid fill-ins whose acceptance by the real per-node code is tabulated per (kind, field) by running the real code on them. The real loop body of parse_function is executed "
    "on proxy nodes (every isinstance/hasattr/in test becomes a solver decision). Obligation: accepted => no node outside {BinOp, UnaryOp, BoolOp, Compare, IfExp, Call, Name, Constant, operators, Load}, "
    "every Call's func is a whitelisted Name, every constant numeric, and the source contains no double underscore (comments included). Models are turned into concrete trees, "
    "ast.unparse'd and pushed through the real parse_function (replay). (c) For every operator shape of depth <= 2 (and a pairwise-nesting subset of depth 3) over + - * / **2 unary- < >= max min sdiv exp floor, scalar and "
    "length-2 array leaves, real fcn(**deps) == independent evaluation with a/b := (a == 0 ? 0 : a/b); set(dep_list) == free names. Bounds as stated; outside: deeper nesting, strings >= 1800 chars."
)
GROUP_TIMEOUT = {"quick": 1800, "thorough": 3600}

# ----------------------------------------------------------------------------------------------------------------
# grammar from the interpreter
# ----------------------------------------------------------------------------------------------------------------


def _sig(c):
    doc = (c.__doc__ or "").replace("\n", " ").strip()
    m = re.match(r"\w+\((.*)\)\s*$", doc)
    out = []
    if m and m.group(1).strip():
        for part in m.group(1).split(","):
            typ, name = part.strip().split()
            q = typ[-1] if typ[-1] in "*?" else ""
            out.append((name, typ.rstrip("*?"), q))
    return out


EXPR_KINDS = list(real_ast.expr.__subclasses__())
HELPER_KINDS = [real_ast.keyword, real_ast.comprehension, real_ast.arguments, real_ast.arg]
CHAIN_KINDS = EXPR_KINDS + HELPER_KINDS
ALL_KINDS = [real_ast.Expression] + CHAIN_KINDS
K = {c: i for i, c in enumerate(ALL_KINDS)}
TYPE_CLASSES = {"expr": EXPR_KINDS, "keyword": [real_ast.keyword], "comprehension": [real_ast.comprehension], "arguments": [real_ast.arguments], "arg": [real_ast.arg]}
FIELDS = sorted({f for c in ALL_KINDS for (f, t, q) in _sig(c)})
FID = {f: i for i, f in enumerate(FIELDS)}
NAME_CLASSES = ["whitelisted", "plain", "colon", "dunder", "time", "step"]  # identifier classes
NAME_REPRESENTATIVE = {"whitelisted": "max", "plain": "y", "colon": "a___b", "dunder": "a__b", "time": "t", "step": "dt"}
NID = {n: i for i, n in enumerate(NAME_CLASSES)}
CONST_CLASSES = ["int", "float", "bool", "str", "bytes", "none", "ellipsis", "complex", "str_dunder"]
CID = {n: i for i, n in enumerate(CONST_CLASSES)}
CONST_VALUES = {"int": 3, "float": 2.5, "bool": True, "str": "s", "bytes": b"b", "none": None, "ellipsis": Ellipsis, "complex": 2j, "str_dunder": "a__b"}
SAFE_KINDS = [real_ast.Expression, real_ast.BinOp, real_ast.UnaryOp, real_ast.BoolOp, real_ast.Compare, real_ast.IfExp, real_ast.Call, real_ast.Name, real_ast.Constant]


def child_fields(c):
    """fields of class c that can hold a chain child: (field, child classes)"""
    return [(f, TYPE_CLASSES[t]) for (f, t, q) in _sig(c) if t in TYPE_CLASSES]


# ----------------------------------------------------------------------------------------------------------------
# concrete fill-ins (minimal valid sub-trees) and concretisation of a model
# ----------------------------------------------------------------------------------------------------------------


def _nm(s="x"):
    return real_ast.Name(id=s, ctx=real_ast.Load())


def build(kind, name_class="plain", const_class="int", child=None, field=None, wl_name="max"):
    """Concrete node of `kind` whose field `field` holds `child` (if given) and all other fields minimal valid fill-ins"""
    ident = {"whitelisted": wl_name, "plain": "y", "colon": "a___b", "dunder": "a__b", "time": "t", "step": "dt"}[name_class]
    A = real_ast

    def ch(f, default):
        return child if (field == f and child is not None) else default

    def chl(f, default):
        return [child] if (field == f and child is not None) else default

    if kind is A.Expression:
        return A.Expression(body=ch("body", _nm()))
    if kind is A.BoolOp:
        return A.BoolOp(op=A.And(), values=chl("values", [_nm()]) + [_nm()])
    if kind is A.NamedExpr:
        return A.NamedExpr(target=ch("target", A.Name(id="w", ctx=A.Store())), value=ch("value", _nm()))
    if kind is A.BinOp:
        return A.BinOp(left=ch("left", _nm()), op=A.Add(), right=ch("right", _nm()))
    if kind is A.UnaryOp:
        return A.UnaryOp(op=A.USub(), operand=ch("operand", _nm()))
    if kind is A.Lambda:
        return A.Lambda(args=ch("args", A.arguments(posonlyargs=[], args=[], vararg=None, kwonlyargs=[], kw_defaults=[], kwarg=None, defaults=[])), body=ch("body", _nm()))
    if kind is A.IfExp:
        return A.IfExp(test=ch("test", _nm()), body=ch("body", _nm()), orelse=ch("orelse", _nm()))
    if kind is A.Dict:
        if field == "keys":
            return A.Dict(keys=[child], values=[_nm()])
        if field == "values":
            return A.Dict(keys=[_nm()], values=[child])
        return A.Dict(keys=[], values=[])
    if kind is A.Set:
        return A.Set(elts=chl("elts", [_nm()]))
    gen = A.comprehension(target=A.Name(id="i", ctx=A.Store()), iter=_nm(), ifs=[], is_async=0)
    if kind in (A.ListComp, A.SetComp, A.GeneratorExp):
        return kind(elt=ch("elt", _nm()), generators=chl("generators", [gen]))
    if kind is A.DictComp:
        return A.DictComp(key=ch("key", _nm()), value=ch("value", _nm()), generators=chl("generators", [gen]))
    if kind is A.Await:
        return A.Await(value=ch("value", _nm()))
    if kind is A.Yield:
        return A.Yield(value=ch("value", None))
    if kind is A.YieldFrom:
        return A.YieldFrom(value=ch("value", _nm()))
    if kind is A.Compare:
        return A.Compare(left=ch("left", _nm()), ops=[A.Lt()], comparators=chl("comparators", [_nm()]))
    if kind is A.Call:
        return A.Call(func=ch("func", _nm("max")), args=chl("args", [_nm()]), keywords=chl("keywords", []))
    if kind is A.FormattedValue:
        return A.FormattedValue(value=ch("value", _nm()), conversion=-1, format_spec=ch("format_spec", None))
    if kind is A.JoinedStr:
        return A.JoinedStr(values=chl("values", []))
    if kind is A.Constant:
        return A.Constant(value=CONST_VALUES[const_class], kind=None)
    if kind is A.Attribute:
        return A.Attribute(value=ch("value", _nm()), attr=ident if name_class != "whitelisted" else "real", ctx=A.Load())
    if kind is A.Subscript:
        return A.Subscript(value=ch("value", _nm()), slice=ch("slice", A.Constant(value=0, kind=None)), ctx=A.Load())
    if kind is A.Starred:
        return A.Starred(value=ch("value", _nm()), ctx=A.Load())
    if kind is A.Name:
        return A.Name(id=ident, ctx=A.Load())
    if kind is A.List:
        return A.List(elts=chl("elts", []), ctx=A.Load())
    if kind is A.Tuple:
        return A.Tuple(elts=chl("elts", []), ctx=A.Load())
    if kind is A.Slice:
        return A.Slice(lower=ch("lower", None), upper=ch("upper", None), step=ch("step", None))
    if kind is A.keyword:
        return A.keyword(arg=None if name_class == "whitelisted" else ident, value=ch("value", _nm()))
    if kind is A.comprehension:
        return A.comprehension(target=ch("target", A.Name(id="i", ctx=A.Store())), iter=ch("iter", _nm()), ifs=chl("ifs", []), is_async=0)
    if kind is A.arguments:
        a = A.arguments(posonlyargs=chl("posonlyargs", []), args=chl("args", []), vararg=ch("vararg", None), kwonlyargs=chl("kwonlyargs", []), kw_defaults=[], kwarg=ch("kwarg", None), defaults=chl("defaults", []))
        if field == "kwonlyargs":
            a.kw_defaults = [None]
        if field == "kw_defaults":
            a.kwonlyargs = [A.arg(arg="k", annotation=None, type_comment=None)]
            a.kw_defaults = [child]
        if field == "defaults":
            a.args = [A.arg(arg="k", annotation=None, type_comment=None)]
        return a
    if kind is A.arg:
        return A.arg(arg=ident if name_class != "whitelisted" else "k", annotation=ch("annotation", None), type_comment=None)
    raise HarnessError("no fill-in for %s" % kind)


def fillin_nodes(kind, field):
    """Nodes that ast.walk would visit below a node of `kind` other than the chain child hanging from `field`"""
    MARK = real_ast.Name(id="__MARK__", ctx=real_ast.Load())
    node = build(kind, child=MARK if field is not None else None, field=field)
    out = []
    for n in real_ast.walk(node):
        if n is node:
            continue
        # skip the marker sub-tree
        if n is MARK or (isinstance(n, real_ast.Load) and False):
            continue
        out.append(n)
    # the ctx object of the marker itself is walked as part of the child in the symbolic tree
    return [n for n in out if not (isinstance(n, real_ast.expr_context) and _is_child_of(MARK, n))]


def _is_child_of(parent, n):
    return any(v is n for v in real_ast.iter_child_nodes(parent))


# ----------------------------------------------------------------------------------------------------------------
# proxies for the symbolic tree
# ----------------------------------------------------------------------------------------------------------------


class SymName:
    """identifier proxy"""

    def __init__(self, cls_var, colon_rewritten=True):
        self.c = cls_var
        self.colon_rewritten = colon_rewritten  # names written with ':' carry '___' after the rewrite in parse_function

    def __contains__(self, item):  # "__" in node.id
        if item == "__":
            if self.colon_rewritten:
                return bool(SB(z3.Or(self.c == NID["dunder"], self.c == NID["colon"])))
            return bool(SB(self.c == NID["dunder"]))
        raise HarnessError("SymName contains %r" % (item,))

    def replace(self, a, b):
        if a == "___" and b == ":":
            return SymName(self.c, colon_rewritten=False)
        if a == ":" and b == "___":
            return SymName(self.c, colon_rewritten=True)
        raise HarnessError("SymName.replace(%r, %r) not modelled" % (a, b))

    def __eq__(self, o):
        # every identifier class has one concrete representative (the one used when a model is concretised)
        if isinstance(o, str):
            ks = [NID[c] for c, rep in NAME_REPRESENTATIVE.items() if rep == o]
            return bool(SB(z3.Or(*[self.c == k for k in ks]))) if ks else False
        raise HarnessError("identifier comparison with %r not modelled" % (o,))

    def __ne__(self, o):
        return not self.__eq__(o)

    __hash__ = None


class SymConstVal:
    def __init__(self, cls_var):
        self.c = cls_var


class SymNode:
    def __init__(self, i):
        self.i = i
        self.kind = z3.Int("kind%d" % i)
        self.field = z3.Int("field%d" % i)  # field of the parent through which this node hangs
        self.ident = z3.Int("ident%d" % i)
        self.const = z3.Int("const%d" % i)
        self.child = None
        self.parent = None

    def __getattr__(self, attr):
        if attr.startswith("__") or attr in ("i", "kind", "field", "ident", "const", "child", "parent"):
            raise AttributeError(attr)
        if attr in ("id", "attr", "arg") and attr in IDENT_FIELDS:
            return SymName(self.ident)
        if attr == "value" and bool(SB(self.kind == K[real_ast.Constant])):
            return SymConstVal(self.const)
        if attr == "_fields":
            for c in ALL_KINDS:
                if bool(SB(self.kind == K[c])):
                    return c._fields
            raise AttributeError(attr)
        if attr in FID:
            # kind-dependent (fork): the field of a node of that kind, holding the chain child if it hangs from this field
            # (inside a list for list-valued fields, as in the real tree) and the minimal fill-in otherwise
            for c in ALL_KINDS:
                if attr in c._fields and bool(SB(self.kind == K[c])):
                    hangs = self.child is not None and any(f == attr for f, _ in child_fields(c)) and bool(SB(self.child.field == FID[attr]))
                    if hangs:
                        mark = _nm("__MARK__")
                        v = getattr(build(c, child=mark, field=attr), attr)
                        if isinstance(v, list):
                            return [self.child if x is mark else x for x in v]
                        return self.child
                    return getattr(build(c), attr)
            raise AttributeError(attr)
        raise AttributeError(attr)


IDENT_FIELDS = {"id", "attr", "arg"}


def sym_isinstance(obj, cls):
    if isinstance(obj, SymNode):
        classes = cls if isinstance(cls, tuple) else (cls,)
        ks = [K[c] for c in ALL_KINDS if issubclass(c, classes)]
        return SB(z3.Or(*[obj.kind == k for k in ks]) if ks else z3.BoolVal(False))
    if isinstance(obj, SymConstVal):
        classes = cls if isinstance(cls, tuple) else (cls,)
        ks = [CID[n] for n in CONST_CLASSES if isinstance(CONST_VALUES[n], classes)]
        return SB(z3.Or(*[obj.c == k for k in ks]) if ks else z3.BoolVal(False))
    if isinstance(obj, SymName):
        return isinstance("x", cls)
    return isinstance(obj, cls)


def sym_hasattr(obj, attr):
    if isinstance(obj, SymNode):
        ks = [K[c] for c in ALL_KINDS if attr in c._fields]
        return SB(z3.Or(*[obj.kind == k for k in ks]) if ks else z3.BoolVal(False))
    return hasattr(obj, attr)


class SymSupported:
    """stand-in for the supported_functions dict: membership of a symbolic identifier"""

    def __init__(self, real):
        self.real = real

    def __contains__(self, key):
        if isinstance(key, SymName):
            return bool(SB(key.c == NID["whitelisted"]))
        return key in self.real

    def __getattr__(self, k):
        return getattr(self.real, k)


class SymSource:
    """stand-in for the function string: only the operations parse_function performs on it"""

    def __init__(self, has_dunder):
        self.d = has_dunder

    def __contains__(self, item):
        if item == "__":
            return bool(SB(self.d))
        raise HarnessError("source contains %r" % (item,))

    def __len__(self):
        return 10

    def replace(self, a, b):
        return self

    def __format__(self, spec):
        return "<symbolic source>"

    def __str__(self):
        return "<symbolic source>"


class AstShim:
    def __init__(self, root, nodes, table):
        self.root = root
        self.nodes = nodes
        self.table = table

    def __getattr__(self, k):
        return getattr(real_ast, k)

    def parse(self, s, mode="eval"):
        return self.root

    def fix_missing_locations(self, x):
        return x

    def iter_fields(self, node):
        if not isinstance(node, SymNode):
            yield from real_ast.iter_fields(node)
            return
        for f in node._fields:
            try:
                yield f, getattr(node, f)
            except AttributeError:
                pass

    def iter_child_nodes(self, node):
        # for traversals written by hand instead of ast.walk: the children of a symbolic node are its chain child (under the
        # field it hangs from) and the concrete fill-ins of the other fields
        for name, field in self.iter_fields(node):
            if isinstance(field, (real_ast.AST, SymNode)):
                yield field
            elif isinstance(field, list):
                for item in field:
                    if isinstance(item, (real_ast.AST, SymNode)):
                        yield item

    def walk(self, root):
        # chain nodes first, then, per chain node, its mandatory fill-ins: their acceptance by the real per-node code was
        # tabulated concretely per (kind, field of the chain child); an unacceptable fill-in is yielded as a concrete node
        for n in self.nodes:
            yield n
        for n in self.nodes:
            for (kind, field), bad in self.table.items():
                if bad is None:
                    continue
                cf = FID[field] if field is not None else -1
                cond = z3.And(n.kind == K[kind], (n.child.field == cf) if (n.child is not None and field is not None) else z3.BoolVal(field is None and n.child is None))
                if bool(SB(cond)):
                    yield bad


class NoDiv:
    def visit(self, x):
        return x


def _rebind(fn, **stubs):
    g = dict(fn.__globals__)
    g.update(stubs)
    return types.FunctionType(fn.__code__, g, fn.__name__, fn.__defaults__, fn.__closure__)


def fillin_table(afp):
    """(kind, field) -> first fill-in node that the real per-node code rejects (or None): concrete run of the real code"""
    table = {}
    for kind in ALL_KINDS:
        combos = [(f, cls) for f, cls in child_fields(kind)] + [(None, None)]
        for field, _ in combos:
            bad = None
            for n in fillin_nodes(kind, field):
                if not _real_node_ok(afp, n):
                    bad = n
                    break
            table[(kind, field)] = bad
    return table


def _real_node_ok(afp, node):
    """Run the real loop body of parse_function on a single concrete node"""

    class OneNode:
        def __getattr__(self, k):
            return getattr(real_ast, k)

        def parse(self, s, mode="eval"):
            return node

        def fix_missing_locations(self, x):
            return x

        def walk(self, root):
            yield node

    fn = _rebind(afp.parse_function, ast=OneNode(), compile=lambda *a, **k: None, _DivTransformer=NoDiv)
    try:
        fn("1")
        return True
    except AssertionError:
        return False


# ----------------------------------------------------------------------------------------------------------------
# group (a): acceptance
# ----------------------------------------------------------------------------------------------------------------


def acceptance_group(depth):
    def g(tier, seed):
        import time
        import atomica.function_parser as afp

        t0 = time.time()
        table = fillin_table(afp)
        res = dict(name=g.__name__, functions=[afp.parse_function], bounds=dict(depth=depth, node_kinds=len(CHAIN_KINDS), fields=len(FIELDS), identifier_classes=NAME_CLASSES, constant_classes=CONST_CLASSES), stubs=["ast.parse/ast.walk -> symbolic tree template; isinstance/hasattr/in supported_functions -> solver decisions; compile and _DivTransformer -> no-ops (the Div rewrite only introduces Call(Name('sdiv')))"], assumptions=[], obligations=[], violations=[], errors=[], witnesses=0, stats={})
        accepted_paths = [0]
        cex = []

        def run(ctx):
            root = SymNode(0)
            nodes = [root] + [SymNode(i) for i in range(1, depth + 1)]
            for a, b in zip(nodes, nodes[1:]):
                a.child = b
                b.parent = a
            s = ctx.solver
            src_dunder = z3.Bool("source_has_dunder")
            ctx.inputs.update({str(v): v for n in nodes for v in (n.kind, n.field, n.ident, n.const)})
            ctx.inputs["source_has_dunder"] = src_dunder
            s.add(root.kind == K[real_ast.Expression])
            for n in nodes[1:]:
                s.add(z3.Or(*[n.kind == K[c] for c in CHAIN_KINDS]))
                s.add(n.ident >= 0, n.ident < len(NAME_CLASSES), n.const >= 0, n.const < len(CONST_CLASSES))
                # an identifier carrying a dunder, or a string constant carrying one, puts a double underscore in the source text
                has_ident = z3.Or(*[n.kind == K[c] for c in ALL_KINDS if IDENT_FIELDS & set(c._fields)])
                s.add(z3.Implies(z3.And(has_ident, n.ident == NID["dunder"]), src_dunder))
                s.add(z3.Implies(z3.And(n.kind == K[real_ast.Constant], n.const == CID["str_dunder"]), src_dunder))
                # keyword.arg / arg.arg / Attribute.attr cannot be written with ':' (only Names get the ':' -> '___' rewrite) and are never 'whitelisted'
                s.add(z3.Implies(z3.And(n.kind != K[real_ast.Name]), z3.And(n.ident != NID["colon"], n.ident != NID["whitelisted"])))
            # grammar: child hangs from a field of the parent that can hold its class
            for a, b in zip(nodes, nodes[1:]):
                opts = []
                for c in ALL_KINDS:
                    for f, classes in child_fields(c):
                        opts.append(z3.And(a.kind == K[c], b.field == FID[f], z3.Or(*[b.kind == K[x] for x in classes])))
                s.add(z3.Or(*opts))
            # the last chain node has no chain child: it must be a leaf-capable kind (all of its child fields can be empty/minimal)
            fn = _rebind(afp.parse_function, isinstance=sym_isinstance, hasattr=sym_hasattr, ast=AstShim(root, nodes, table), supported_functions=SymSupported(afp.supported_functions), compile=lambda *a, **k: None, _DivTransformer=NoDiv)
            try:
                fn(SymSource(src_dunder))
            except AssertionError:
                return None
            accepted_paths[0] += 1
            unsafe = []
            for n in nodes[1:]:
                unsafe.append(z3.Not(z3.Or(*[n.kind == K[c] for c in SAFE_KINDS])))
                if n.child is not None:
                    unsafe.append(z3.And(n.kind == K[real_ast.Call], n.child.field == FID["func"], z3.Not(z3.And(n.child.kind == K[real_ast.Name], n.child.ident == NID["whitelisted"]))))
                    # helper nodes may never hang below an accepted node (keyword arguments, comprehension clauses, lambda arguments)
                unsafe.append(z3.And(n.kind == K[real_ast.Constant], z3.Not(z3.Or(n.const == CID["int"], n.const == CID["float"], n.const == CID["bool"]))))
            unsafe.append(src_dunder)
            ob = ctx.prove("accepted_implies_safe", z3.Not(z3.Or(*unsafe)), meta=dict(key="accepted_unsafe"))
            if ob.status == "sat":
                cex.append(dict(ob.model))
            return True

        st = explore(run, timeout_ms=60000, seed=seed, max_paths=200000)
        res["obligations"] = [o.as_dict() for o in st["obligations"]]
        res["stats"] = stats_of(st)
        res["bounds"]["accepted_paths"] = accepted_paths[0]
        if accepted_paths[0] == 0:
            res["errors"].append("vacuous: no accepted path (the plain arithmetic trees must be accepted)")
        # vacuity witness: a plain accepted tree must exist and really be accepted
        try:
            afp.parse_function("max(x,1)+y*2")
            res["witnesses"] += 1
        except Exception as e:
            res["errors"].append("witness max(x,1)+y*2 rejected by the real code: %r" % e)
        # replay
        seen = set()
        for m in cex:
            src, tree_desc = concretise(m, depth)
            if src in seen:
                continue
            seen.add(src)
            ok, detail = _replay_src(afp, src)
            if ok:
                res["violations"].append(dict(key="%s:accepted_unsafe[%s]" % (g.__name__, tree_desc), what="parse_function accepts %r (%s)" % (src, tree_desc), model=m, obligations=["accepted_implies_safe"], replay=dict(group=g.__name__, source=src)))
            else:
                res["errors"].append("counterexample %r (%s) does not reproduce: %s" % (src, tree_desc, detail))
        if any(o["status"] == "sat" for o in res["obligations"]) and not res["violations"] and not res["errors"]:
            res["errors"].append("sat obligation without replay")
        res["wall_s"] = round(time.time() - t0, 2)
        return res

    g.__name__ = "acceptance[depth=%d]" % depth
    return g


def _replay_src(afp, src):
    import os, tempfile

    cwd = os.getcwd()
    d = tempfile.mkdtemp(prefix="c19_")
    os.chdir(d)
    try:
        try:
            afp.parse_function(src)
            return True, "accepted"
        except Exception as e:
            return False, "rejected with %s" % type(e).__name__
    finally:
        os.chdir(cwd)
        import shutil

        shutil.rmtree(d, ignore_errors=True)


def _mval(m, k):
    from fractions import Fraction

    v = m.get(k, "0/1")
    if v in ("True", "False"):
        return v == "True"
    try:
        return int(Fraction(v))
    except Exception:
        return 0


def concretise(m, depth):
    kinds = [ALL_KINDS[_mval(m, "kind%d" % i)] for i in range(depth + 1)]
    fields = [FIELDS[_mval(m, "field%d" % i)] if 0 <= _mval(m, "field%d" % i) < len(FIELDS) else None for i in range(depth + 1)]
    node = None
    for i in range(depth, 0, -1):
        node = build(kinds[i], NAME_CLASSES[_mval(m, "ident%d" % i) % len(NAME_CLASSES)], CONST_CLASSES[_mval(m, "const%d" % i) % len(CONST_CLASSES)], child=node, field=fields[i + 1] if i < depth else None)
    tree = real_ast.Expression(body=node)
    real_ast.fix_missing_locations(tree)
    src = real_ast.unparse(tree).replace("___", ":")
    sd = m.get("source_has_dunder")
    if (sd in ("True", "1/1")) and "__" not in src:
        src = src + "  #__"
    return src, ">".join(k.__name__ for k in kinds[1:])


# ----------------------------------------------------------------------------------------------------------------
# group (c): semantics of accepted strings
# ----------------------------------------------------------------------------------------------------------------

LEAVES = ["a", "b", "c", "d"]


def shapes(tier):
    un = ["-{0}", "exp({0})", "floor({0})"]
    bi = ["{0}+{1}", "{0}-{1}", "{0}*{1}", "{0}/{1}", "{0}**2+{1}", "max({0},{1})", "min({0},{1})", "sdiv({0},{1})", "({0}<{1})+0", "({0}>={1})*1"]
    d1 = [u.format("a") for u in un] + [b.format("a", "b") for b in bi]
    out = list(d1)
    # depth 2: every operator applied to every depth-1 shape in each position
    for b in bi:
        for inner in bi + un:
            out.append(b.format("(" + inner.format("a", "b") + ")", "c"))
            out.append(b.format("c", "(" + inner.format("a", "b") + ")"))
    for u in un:
        for inner in bi:
            out.append(u.format("(" + inner.format("a", "b") + ")"))
    # a quantity used again after it was an argument of min/max (arguments must not be modified), and the names t / dt
    out += ["a//b", "a%b", "(a//b)*b+a%b", "a//2+b"]
    out += ["max(a,b)-a", "a-min(a,b)", "(a+max(a,b,c))/2", "min(a,b)*a+max(a,b)", "a*t", "1-(1-a)*dt", "max(t,dt)+a", "t/dt"]
    out += ["min(1,a/b)", "max(0,1-a/b)", "exp(-a/b)", "a/b/c", "a/(b/c)", "max(a,b,c)", "min(a,b,c,d)", "pop:a+b", "a/b+c/d", "-(a/b)", "(a+b)/(a+b)", "2*a/3", "a/2.5", "0/a", "a/(b-b)"]
    if tier != "quick":
        for b1, b2, b3 in itertools.product(bi[:8], repeat=3):
            out.append(b1.format("(" + b2.format("a", "(" + b3.format("b", "c") + ")") + ")", "d"))
    # dedupe keeping order
    seen = set()
    res = []
    for s in out:
        if s not in seen:
            seen.add(s)
            res.append(s)
    return res


def spec_eval(env, src, vals):
    """Independent evaluator (its own small interpreter over the python syntax tree; division is a/b := 0 if a == 0)"""
    tree = real_ast.parse(src.replace(":", "___"), mode="eval")

    def where(c, a, b):
        if env.symbolic:
            from vsym.core import where as w

            return w(c, a, b)
        return a if c else b

    def ev(n):
        A = real_ast
        if isinstance(n, A.Expression):
            return ev(n.body)
        if isinstance(n, A.Constant):
            return n.value
        if isinstance(n, A.Name):
            return vals[n.id]
        if isinstance(n, A.UnaryOp):
            return -ev(n.operand)
        if isinstance(n, A.BinOp):
            l, r = ev(n.left), ev(n.right)
            if isinstance(n.op, A.Add):
                return l + r
            if isinstance(n.op, A.Sub):
                return l - r
            if isinstance(n.op, A.Mult):
                return l * r
            if isinstance(n.op, A.Pow):
                return l * l if r == 2 else None
            if isinstance(n.op, A.Div):
                return sdiv(l, r)
            if isinstance(n.op, (A.FloorDiv, A.Mod)):
                # ordinary floor division / remainder (no 0/0 rule: these are not rewritten); the divisor is non-zero
                env.assume(env.b(r != 0) if env.symbolic else (r != 0), "domain: the divisor of // and % is non-zero")
                if env.symbolic:
                    from vsym.core import is_sym, SR
                    import z3 as _z3
                    from vsym.core import lift as _lift

                    fl = SR(_z3.ToReal(_z3.ToInt(_lift(l) / _lift(r)))) if (is_sym(l) or is_sym(r)) else float(__import__("math").floor(l / r))
                else:
                    fl = float(__import__("math").floor(l / r))
                return fl if isinstance(n.op, A.FloorDiv) else l - fl * r
        if isinstance(n, A.Compare):
            l, r = ev(n.left), ev(n.comparators[0])
            op = n.ops[0]
            c = (l < r) if isinstance(op, A.Lt) else (l >= r)
            return 1.0 if bool(c) else 0.0  # decided per path (numpy's object comparison loops decide it per path as well)
        if isinstance(n, A.Call):
            args = [ev(a) for a in n.args]
            f = n.func.id
            if f == "max":
                r = args[0]
                for x in args[1:]:
                    r = env.smax(r, x)
                return r
            if f == "min":
                r = args[0]
                for x in args[1:]:
                    r = env.smin(r, x)
                return r
            if f == "sdiv":
                return sdiv(args[0], args[1])
            if f == "exp":
                return shim.sexp(args[0])
            if f == "floor":
                return shim.sfloor(args[0]) if env.symbolic else float(__import__("math").floor(args[0]))
        raise HarnessError("spec evaluator: unsupported node %s" % real_ast.dump(n))

    def sdiv(l, r):
        # domain of the property (ordinary real arithmetic): a non-zero numerator over a zero denominator is undefined
        if env.symbolic:
            from vsym.core import is_sym

            if is_sym(l) or is_sym(r):
                env.assume(env.b((l == 0) | (r != 0)) if (is_sym(l) and is_sym(r)) else (env.b(r != 0) if is_sym(r) else env.b(l == 0) if r == 0 else True), "domain: a division with non-zero numerator has a non-zero denominator")
                if not is_sym(r) and r == 0:
                    return 0.0
                return where(env.b(l == 0) if is_sym(l) else (l == 0), 0.0, l / r)
        if l == 0:
            return 0.0
        if r == 0:
            env.assume(False, "domain: a division with non-zero numerator has a non-zero denominator")
            return float("nan")
        return l / r

    return ev(tree)


def free_names(src):
    tree = real_ast.parse(src.replace(":", "___"), mode="eval")
    import atomica.function_parser as afp

    return {n.id for n in real_ast.walk(tree) if isinstance(n, real_ast.Name) and n.id not in afp.supported_functions}


def semantics_body(src, arrays):
    def body(env):
        import atomica.function_parser as afp

        names = sorted(free_names(src))
        if arrays:
            vals = {n: [env.real("%s_%d" % (n, i), -100, 100) for i in range(2)] for n in names}
        else:
            vals = {n: env.real(n, -100, 100) for n in names}
        patches = shim.patches_for(afp)
        snp = patches[0][2]
        sf = afp.supported_functions
        patches += [(sf, "exp", snp.exp), (sf, "floor", snp.floor)]
        fcn, deps = afp.parse_function(src)
        env.claim("dep_list_is_set_of_free_names", env.true(set(deps) == set(names)), key="dep_list")
        # exp arguments are kept small so that the concrete replay cannot overflow
        with env.installed(patches):
            # the specification value is computed first: it places the domain assumptions before the code they constrain
            if arrays:
                wants = [spec_eval(env, src, {n: v[i] for n, v in vals.items()}) for i in range(2)]
                got = fcn(**{n: env.array(v) for n, v in vals.items()})
                ax = shim.exp_axioms() if env.symbolic else ()
                for i in range(2):
                    gi = got[i] if hasattr(got, "__len__") else got
                    env.claim("value_matches_real_arithmetic_elem%d" % i, env.eq(gi, wants[i]), key="semantics_array", extra_axioms=ax)
            else:
                want = spec_eval(env, src, vals)
                got = fcn(**vals)
                ax = shim.exp_axioms() if env.symbolic else ()
                env.claim("value_matches_real_arithmetic", env.eq(got, want), key="semantics_scalar", extra_axioms=ax)

    return body


def semantics_group(chunk, idx, arrays):
    def g(tier, seed):
        import time
        import atomica.function_parser as afp

        t0 = time.time()
        out = dict(name=g.__name__, functions=[afp.parse_function, afp.sdiv, afp.vector_max, afp.vector_min, afp._DivTransformer.visit_BinOp], bounds=dict(shapes=len(chunk), arrays=arrays, leaves="|x|<=100"), stubs=["numpy in atomica.function_parser -> vsym shim; supported_functions['exp'|'floor'] -> shim (exp uninterpreted, floor via ToInt)"], assumptions=[], obligations=[], violations=[], errors=[], witnesses=0, stats=dict(paths=0, queries=0, solver_time=0.0, merge_calls=0, merge_local_paths=0))
        for src in chunk:
            try:
                r = run_body(semantics_body(src, arrays), "%s:%s" % (g.__name__, src), tier, seed, timeout_ms=30000, max_paths=2000)
            except HarnessError as e:
                out["errors"].append("%s: HarnessError %s" % (src, e))
                continue
            for ob in r["obligations"]:
                ob["name"] = "%s | %s" % (src, ob["name"])
            out["obligations"] += r["obligations"]
            for v in r["violations"]:
                v["key"] = "semantics[%s]:%s" % ("array" if arrays else "scalar", src)
                v["obligations"] = ["%s | %s" % (src, n) for n in v["obligations"]]
                v["replay"] = dict(group="semantics", source=src, arrays=arrays, claim=v["replay"]["claim"])
            out["violations"] += r["violations"]
            out["errors"] += ["%s: %s" % (src, e) for e in r["errors"]]
            out["witnesses"] += r["witnesses"]
            for k in out["stats"]:
                out["stats"][k] += r["stats"].get(k, 0)
        out["wall_s"] = round(time.time() - t0, 2)
        return out

    g.__name__ = "semantics[%s;chunk=%d]" % ("array" if arrays else "scalar", idx)
    return g


def groups(tier):
    gs = [acceptance_group(d) for d in ((1, 2, 3) if tier == "quick" else (1, 2, 3, 4))]
    sh = shapes(tier)
    nchunk = 12 if tier == "quick" else 30
    for arrays in (False, True):
        for i in range(nchunk):
            chunk = sh[i::nchunk]
            if chunk:
                gs.append(semantics_group(chunk, i, arrays))
    return gs


def replay(rec):
    import atomica.function_parser as afp

    r = rec["replay"]
    if r["group"].startswith("acceptance"):
        return _replay_src(afp, r["source"])
    return replay_body(semantics_body(r["source"], r.get("arrays", False)), rec["model"], r["claim"])
