"""
C15 -- optimization/calibration (fragment decided by this technique).

Decided: the objective the optimizer evaluates is the documented sum (Measurable.get_objective_val and subclasses, eval weights,
Optimization.compute_objective) over symbolic model outputs; Optimization.get_initialization returns x0 within [xmin, xmax]
or raises InvalidInitialConditions; calibration._update_parset writes exactly the requested factors.
Not decided: anything that depends on the stochastic ASD search, on pickling/unpickling whole models per evaluation, or on
crash points during the search.
"""

import copy
import numpy as np
from vsym import shim, modelrun as mr
from vsym.env import run_body, replay_body
from checks.modelstep import project

TECHNIQUE = "symbolic execution of the real Measurable.get_objective_val/eval (and AtMost/AtLeast/Minimize/Maximize), Optimization.compute_objective/get_initialization and calibration._update_parset on z3-real proxies (every output array of a real built model is symbolic); SMT equality obligations against the documented sum; replay on the unpatched code"
EXPLANATION = (
    "A real Model of M12 with two populations is built; every compartment, parameter and link array (T = 4) is replaced by symbolic reals. The real objective code is run for measurables over a single year, a [low, high) range, with and without "
    "population selection, on a compartment, a parameter and a flow (annualised), and for budget measurables; obligation: value == sum over the requested populations and years (upper bound excluded) of the output (flows divided by dt), eval == weight*value "
    "(Minimize +1, Maximize -1), AtMost/AtLeast == inf exactly when the threshold is crossed, compute_objective == sum of the evals. get_initialization: for symbolic initial spending and absolute/relative bounds, either x0 is within [xmin, xmax] and these are the hard bounds, "
    "or InvalidInitialConditions is raised. _update_parset: after the call every addressed population factor / all-population factor equals the requested value and nothing else changed. NOT decided (stated in MANIFEST): 'no worse than the start', hard targets kept, "
    "caller state restored at every crash point -- these quantify over the random path of sciris' ASD and over exceptions injected at the k-th simulation, i.e. enumerations of concrete runs, not solver queries."
)
GROUP_TIMEOUT = {"quick": 1800, "thorough": 3000}


def _sym_model(env, T=4):
    """Real built model (M12, two populations) whose output arrays are all symbolic"""
    am, ap, au, apar, afp = mr.modules()
    P = project("M12", T, 0.25, pops=2)
    m = am.Model(P.settings, P.framework, P.parsets[0])
    vals = {}
    for pop in m.pops:
        for var in pop.comps + pop.pars + pop.links:
            arr = env.array([env.real("%s|%s|%s|%d" % (type(var).__name__[:4], pop.name, var.name if not isinstance(var, am.Link) else "%s>%s" % (var.source.name, var.dest.name), ti), 0, 1e6) for ti in range(T)])
            var.vals = arr
            var.t = m.t
            var.dt = m.dt
    return P, m


def objective_body(kind):
    def body(env):
        import atomica.optimization as ao

        am, ap, au, apar, afp = mr.modules()
        with env.installed(shim.patches_for(ao, am)):
            P, m = _sym_model(env)
            m.progset = None
            tv = [float(t) for t in m.t]
            pops = [p.name for p in m.pops]

            class PS:  # the objective code only asks whether the measurable names a program
                programs = {}

            m.progset = PS()
            if kind == "single_year":
                meas = ao.Measurable("tx", t=2000.25)
                want = sum((p.comp_lookup["tx"].vals[1] for p in m.pops[1:]), m.pops[0].comp_lookup["tx"].vals[1])
            elif kind == "range":
                meas = ao.Measurable("tx", t=[2000.0, 2000.5], weight=2.5)
                want = 0.0
                for p in m.pops:
                    for ti, t in enumerate(tv):
                        if 2000.0 <= t < 2000.5:
                            want = want + p.comp_lookup["tx"].vals[ti]
            elif kind == "pop_selection":
                meas = ao.Measurable("tx", t=[2000.0, 2000.75], pop_names=[pops[1]])
                want = 0.0
                for ti, t in enumerate(tv):
                    if 2000.0 <= t < 2000.75:
                        want = want + m.pops[1].comp_lookup["tx"].vals[ti]
            elif kind == "flow":
                meas = ao.MinimizeMeasurable("loss:flow", t=[2000.25, 2001.0])
                want = 0.0
                for p in m.pops:
                    for l in p.par_lookup["loss"].links:
                        for ti, t in enumerate(tv):
                            if 2000.25 <= t < 2001.0:
                                want = want + l.vals[ti] / m.dt
            elif kind == "parameter_max":
                meas = ao.MaximizeMeasurable("ret", t=2000.5)
                want = sum((p.par_lookup["ret"].vals[2] for p in m.pops[1:]), m.pops[0].par_lookup["ret"].vals[2])
            elif kind in ("spending", "spending_default"):
                # the measurable names a program: the objective is the spending the run uses at the simulation times of the
                # period - an instructions overwrite holds its value until the next overwrite point (ProgramSet.get_alloc),
                # a program without an overwrite spends what the program book says
                from checks import C13 as c13

                progset, psym, _ = c13.make_progset(env, P, "additive", pops)
                a, b = env.real("alloc|Ptest|2000", 0, 1e6), env.real("alloc|Ptest|2000.75", 0, 1e6)
                with env.installed(shim.patches_for(ap, au)):
                    m.progset = progset
                    m.program_instructions = ap.ProgramInstructions(start_year=2000.0, alloc={"Ptest": au.TimeSeries(t=[2000.0, 2000.75], vals=[a, b])})
                if kind == "spending":
                    meas = ao.Measurable("Ptest", t=[2000.0, 2001.0], weight=0.5)
                    want = a + a + a + b
                else:
                    meas = ao.Measurable("Ptreat", t=[2000.25, 2000.75])
                    want = psym["Ptreat"]["spend"] + psym["Ptreat"]["spend"]
            if kind.startswith("spending"):
                with env.installed(shim.patches_for(ap, au)):
                    val = meas.get_objective_val(m, None)
                    ev = meas.eval(m, None)
            else:
                val = meas.get_objective_val(m, None)
                ev = meas.eval(m, None)
            opt = ao.Optimization(name="o", adjustments=[], measurables=[meas, ao.Measurable("dx", t=2000.0, weight=3.0)], constraints=None)
            if kind.startswith("spending"):
                with env.installed(shim.patches_for(ap, au)):
                    total = opt.compute_objective(m, [None, None])
            else:
                total = opt.compute_objective(m, [None, None])
        env.claim("objective_is_documented_sum", env.eq(val, want), key="objective[%s]" % kind)
        env.claim("eval_applies_weight", env.eq(ev, meas.weight * want), key="weight")
        other = 0.0
        for p in m.pops:
            other = other + p.comp_lookup["dx"].vals[0]
        env.claim("compute_objective_adds_measurables", env.eq(total, meas.weight * want + 3.0 * other), key="compute_objective")

    return body


def threshold_body(at_most):
    def body(env):
        import atomica.optimization as ao

        am, ap, au, apar, afp = mr.modules()
        with env.installed(shim.patches_for(ao, am)):
            P, m = _sym_model(env)

            class PS:
                programs = {}

            m.progset = PS()
            thr = env.real("threshold", 0, 1e6)
            meas = (ao.AtMostMeasurable if at_most else ao.AtLeastMeasurable)("tx", t=2000.5, threshold=thr)
            v = meas.eval(m, None)
        tot = 0.0
        for p in m.pops:
            tot = tot + p.comp_lookup["tx"].vals[2]
        crossed = (tot > thr) if at_most else (tot < thr)
        is_inf = isinstance(v, float) and v == float("inf")
        env.claim("penalty_infinite_exactly_when_threshold_crossed", env.true(env.b(crossed) if is_inf else ~env.b(crossed)) if env.symbolic else env.true(bool(crossed) == is_inf), key="threshold")

    return body


def relative_target_body(increase, target_type):
    """IncreaseBy/DecreaseBy hard targets: infinite penalty exactly when the output misses `baseline (1 +- f)` / `baseline +- D`"""

    def body(env):
        import atomica.optimization as ao

        am, ap, au, apar, afp = mr.modules()
        with env.installed(shim.patches_for(ao, am)):
            P, m = _sym_model(env)

            class PS:
                programs = {}

            m.progset = PS()
            amount = env.real("amount", 0, 0.9) if target_type == "frac" else env.real("amount", 0, 1e5)
            base = env.real("baseline", 1.0, 1e6)
            cls = ao.IncreaseByMeasurable if increase else ao.DecreaseByMeasurable
            meas = cls("tx", 2000.5, amount, target_type=target_type)
            v = meas.get_objective_val(m, base)
        tot = 0.0
        for p in m.pops:
            tot = tot + p.comp_lookup["tx"].vals[2]
        if target_type == "frac":
            target = base * (1 + amount) if increase else base * (1 - amount)
        else:
            target = base + amount if increase else base - amount
        missed = (tot < target) if increase else (tot > target)
        is_inf = isinstance(v, float) and v == float("inf")
        env.claim("penalty_infinite_exactly_when_target_missed", env.true(env.b(missed) if is_inf else ~env.b(missed)) if env.symbolic else env.true(bool(missed) == is_inf), key="relative_target")

    return body


def initialization_body(limit_type):
    def body(env):
        import atomica.optimization as ao
        import atomica.programs as ap
        import atomica.utils as au

        spend = [env.real("spend%d" % i, 0, 1e6) for i in range(2)]
        lo = [env.real("lower%d" % i, 0, 3 if limit_type == "rel" else 1e6) for i in range(2)]
        hi = [env.real("upper%d" % i, 0, 3 if limit_type == "rel" else 1e6) for i in range(2)]
        with env.installed(shim.patches_for(ao, ap, au)):
            instr = ap.ProgramInstructions(start_year=2019.0, alloc={"P%d" % i: au.TimeSeries(t=[2020.0], vals=[spend[i]]) for i in range(2)})
            adjs = [ao.SpendingAdjustment("P%d" % i, 2020.0, limit_type, lo[i], hi[i]) for i in range(2)]
            opt = ao.Optimization(name="o", adjustments=adjs, measurables=[], constraints=None)

            import sciris as sc

            ps = ap.ProgramSet.__new__(ap.ProgramSet)
            ps.name = "ps"
            ps.programs = sc.odict()
            for i in range(2):
                ps.programs["P%d" % i] = ap.Program("P%d" % i)
            ps.covouts = sc.odict()
            try:
                x0, xmin, xmax = opt.get_initialization(ps, instr)
            except ao.InvalidInitialConditions:
                env.note("raised", True)
                return
        for i in range(2):
            blo = lo[i] * spend[i] if limit_type == "rel" else lo[i]
            bhi = hi[i] * spend[i] if limit_type == "rel" else hi[i]
            env.claim("x0_is_initial_spend_%d" % i, env.eq(x0[i], spend[i], 0), key="x0")
            env.claim("x0_within_bounds_%d" % i, env.ge(x0[i], xmin[i], 0) & env.le(x0[i], xmax[i], 0), key="x0_within_bounds")
            env.claim("bounds_are_hard_bounds_%d" % i, env.eq(xmin[i], blo) & env.eq(xmax[i], bhi), key="hard_bounds")

    return body


def update_parset_body():
    def body(env):
        import atomica.calibration as ac
        from checks.relational import _numbers
        from vsym.core import _same

        P = project("M12", 3, 0.25, pops=2)
        parset = copy.deepcopy(P.parsets[0])
        pops = list(parset.pop_names)
        f = [env.real("factor%d" % i, 0, 10) for i in range(3)]
        adjust = [("test", pops[0]), ("treat", "all"), ("undx", pops[1])]
        before = dict(_numbers(parset))
        ac._update_parset(parset, f, adjust)
        after = dict(_numbers(parset))
        env.claim("population_factor_written", env.eq(parset.pars["test"].y_factor[pops[0]], f[0], 0) & env.eq(parset.pars["undx"].y_factor[pops[1]], f[2], 0), key="factor_written")
        env.claim("all_population_factor_written", env.eq(parset.pars["treat"].meta_y_factor, f[1], 0), key="factor_written")
        touched = {"parset.test.y_factor.%s" % pops[0], "parset.treat.meta_y_factor", "parset.undx.y_factor.%s" % pops[1]}
        same = set(before) == set(after) and all((_same(before[k], after[k]) if not isinstance(before[k], tuple) else before[k] == after[k]) for k in before if k not in touched)
        env.claim("nothing_else_changed", env.true(bool(same)), key="nothing_else")

    return body


class _AsdStub:
    """sciris stand-in for atomica.calibration / atomica.optimization: sc.asd evaluates the objective at an arbitrary point
    within the bounds (optionally raising there) and returns another arbitrary point within the bounds as 'the optimum'"""

    def __init__(self, env, real_sc, evaluate=True, raise_in_eval=False):
        self.env, self._sc, self.evaluate, self.raise_in_eval = env, shim.ShimSC(real_sc) if env.symbolic else real_sc, evaluate, raise_in_eval
        self.returned = None
        self.evaluated = None

    def __getattr__(self, k):
        return getattr(self._sc, k)

    def _point(self, tag, x0, xmin, xmax):
        pts = []
        for i in range(len(x0)):
            lo = xmin[i] if xmin is not None else -1e6
            hi = xmax[i] if xmax is not None else 1e6
            v = self.env.real("%s%d" % (tag, i), -1e7, 1e7)
            self.env.assume(self.env.b(v >= lo) & self.env.b(v <= hi) if self.env.symbolic else (lo <= v <= hi), "the optimizer stays within the bounds it was given")
            pts.append(v)
        return pts

    def asd(self, function, x0, args=None, xmin=None, xmax=None, **kw):
        if self.evaluate:
            xe = self._point("asd_eval", x0, xmin, xmax)
            self.evaluated = xe
            if self.raise_in_eval:
                raise RuntimeError("failure injected at an evaluation")
            function(self.env.array(xe), **(args or {}))
        xr = self._point("asd_best", x0, xmin, xmax)
        self.returned = xr
        return {"x": self.env.array(xr)}


def calibrate_body(fail):
    """calibration.calibrate with sc.asd replaced by the stub and the simulation replaced by a refusing project (objective = inf)"""

    def body(env):
        import sciris as sc
        import atomica.calibration as ac
        from checks.relational import _numbers
        from vsym.core import _same

        am, ap, au, apar, afp = mr.modules()
        P = project("M12", 3, 0.25, pops=2)
        parset = copy.deepcopy(P.parsets[0])
        pops = list(parset.pop_names)
        y0 = [env.real("start_factor%d" % i, 0.1, 5) for i in range(3)]
        parset.pars["test"].y_factor[pops[0]] = y0[0]
        parset.pars["treat"].meta_y_factor = y0[1]
        parset.pars["undx"].y_factor[pops[1]] = y0[2]
        adjust = [("test", pops[0], 0.1, 5.0), ("treat", "all", 0.5, 2.0), ("undx", pops[1], 0.1, 10.0)]

        class Settings:
            sim_end = 2035.0

        class Data:
            tvec = np.array([2000.0, 2020.0])

        Data.pops = {p: None for p in pops}

        class Proj:
            settings = Settings()
            data = Data()

            def run_sim(self, parset=None, store_results=False, **k):
                self.seen_end = self.settings.sim_end
                raise am.BadInitialization("refused")  # the objective is then inf: no model run is needed for the plumbing

        proj = Proj()
        before = dict(_numbers(parset))
        stub = _AsdStub(env, sc, evaluate=True, raise_in_eval=fail)
        raised = False
        with env.installed(shim.patches_for(ac, apar)), shim.Installed([(ac.__dict__, "sc", stub)]):
            try:
                new = ac.calibrate(proj, parset, adjust, [("tx", pops[0], 1.0, "fractional")], max_time=1)
            except RuntimeError:
                raised = True
        after = dict(_numbers(parset))
        same = set(before) == set(after) and all((_same(before[k], after[k]) if not isinstance(before[k], tuple) else before[k] == after[k]) for k in before)
        env.claim("callers_parset_unchanged", env.true(bool(same)), key="caller_parset")
        env.claim("end_year_restored", env.true(proj.settings.sim_end == 2035.0), key="end_year")
        if fail:
            env.claim("failure_propagates", env.true(raised), key="failure")
            return
        env.claim("end_year_shortened_to_data_during_the_search", env.true(getattr(proj, "seen_end", None) == 2020.0), key="end_year_during")
        xr = stub.returned
        env.claim("result_is_a_copy", env.true(new is not parset), key="copy")
        env.claim("result_carries_the_optimizers_answer", env.eq(new.pars["test"].y_factor[pops[0]], xr[0], 0) & env.eq(new.pars["treat"].meta_y_factor, xr[1], 0) & env.eq(new.pars["undx"].y_factor[pops[1]], xr[2], 0), key="calibrate_result")
        for i, (nm, pp, lo, hi) in enumerate(adjust):
            v = new.pars[nm].meta_y_factor if pp == "all" else new.pars[nm].y_factor[pp]
            env.claim("adjusted_value_within_bounds_%d" % i, env.ge(v, lo, 0) & env.le(v, hi, 0), key="calibrate_bounds")

    return body


def optimize_body(fail):
    """optimization.optimize with sciris' ASD and scipy's SLSQP replaced by nondeterministic stubs: whatever the search does,
    the returned instructions respect the hard bounds and the total, and the caller's objects are untouched"""

    def body(env):
        import sciris as sc
        import scipy
        import atomica.optimization as ao
        import atomica.results as ares
        from checks import C13 as c13
        from checks.C14 import _StubMinimize
        from checks.relational import _numbers
        from vsym.core import _same, merged

        am, ap, au, apar, afp = mr.modules()
        P = project("M12", 3, 0.25)
        F = P.framework
        t_adj = 2000.25
        stub = _AsdStub(env, sc, evaluate=True, raise_in_eval=fail)
        extra = shim.patches_for(ao, ares) + ([(ap.Covout, "get_outcome", merged(ap.Covout.__dict__["get_outcome"], name="Covout.get_outcome"))] if env.symbolic else [])
        if env.symbolic:
            extra = [p_ for p_ in extra if not (p_[0] is ao.__dict__ and p_[1] in ("sc", "scipy"))] + [(ao.__dict__, "scipy", _StubMinimize(env, 2, scipy))]
        import pickle as _pickle

        class PickleShim:
            """optimize() unpickles a fresh model per evaluation: the mergeable heap must follow the unpickled objects"""

            dumps = staticmethod(_pickle.dumps)

            @staticmethod
            def loads(b):
                mdl = _pickle.loads(b)
                if env.symbolic:
                    env.heap(mr.all_vars(mdl) + [mdl])
                return mdl

        with mr.session(env, outline_pars=True), env.installed(extra), shim.Installed([(ao.__dict__, "sc", stub), (ao.__dict__, "pickle", PickleShim)]):
            parset = copy.deepcopy(P.parsets[0])
            mr.symbolize_parset(env, parset, F, comps=False)
            m0 = am.Model(P.settings, F, P.parsets[0])
            parset.initialization = mr.symbolic_state(env, m0)
            progset, psym, outcomes = c13.make_progset(env, P, "additive", list(parset.pop_names))
            s0 = [env.real("alloc0|%s" % n, 1.0, 1e6) for n in ("Ptest", "Ptreat")]
            instr = ap.ProgramInstructions(start_year=2000.0, alloc={"Ptest": au.TimeSeries(t=[2000.0], vals=[s0[0]]), "Ptreat": au.TimeSeries(t=[2000.0], vals=[s0[1]])})
            up = env.real("upper|Ptest", 1.0, 2e6)
            env.assume(env.b(up >= s0[0]), "the initial spending respects its own upper bound")
            adjs = [ao.SpendingAdjustment("Ptest", t_adj, "abs", 0.0, up), ao.SpendingAdjustment("Ptreat", t_adj, "rel", 0.5, 2.0)]
            opt = ao.Optimization(name="o", adjustments=adjs, measurables=[ao.MinimizeMeasurable("lost", t=[2000.0, 2000.75])], constraints=[ao.TotalSpendConstraint()], maxiters=1)

            class Proj:
                settings = P.settings
                framework = F

            before = _numbers(parset) + _numbers(progset) + _numbers(instr)
            sett_before = (P.settings.sim_start, P.settings.sim_end, P.settings.sim_dt)
            raised = None
            try:
                new_instr = ao.optimize(Proj(), opt, parset, progset, instr)
            except RuntimeError:
                raised = "injected"
            except (ao.FailedConstraint, AssertionError):
                raised = "constraint"
            after = _numbers(parset) + _numbers(progset) + _numbers(instr)
            same = [p_ for p_, _ in before] == [p_ for p_, _ in after] and all((_same(a, b) if not isinstance(a, tuple) else a == b) for (_, a), (_, b) in zip(before, after))
            env.claim("callers_objects_unchanged", env.true(bool(same)), key="optimize_caller_state")
            env.claim("settings_unchanged", env.true(sett_before == (P.settings.sim_start, P.settings.sim_end, P.settings.sim_dt)), key="optimize_settings")
            if raised:
                if fail:
                    env.claim("failure_propagates", env.true(raised == "injected"), key="failure")
                return
            v = [new_instr.alloc[n].get(t_adj) for n in ("Ptest", "Ptreat")]
        env.claim("result_is_not_the_callers_object", env.true(new_instr is not instr), key="optimize_copy")
        env.claim("adjusted_spending_within_bounds_Ptest", env.ge(v[0], 0.0) & env.le(v[0], up), key="optimize_bounds")
        env.claim("adjusted_spending_within_bounds_Ptreat", env.ge(v[1], 0.5 * s0[1]) & env.le(v[1], 2.0 * s0[1]), key="optimize_bounds")
        tot = s0[0] + s0[1]
        d = v[0] + v[1] - tot
        env.claim("total_spending_kept", env.le(d, 1e-8 + 1e-5 * tot, 0) & env.ge(d, -(1e-8 + 1e-5 * tot), 0), key="optimize_total")

    return body


def _funcs():
    import atomica.optimization as ao
    import atomica.calibration as ac

    return [ao.Measurable.get_objective_val, ao.Measurable.eval, ao.AtMostMeasurable.get_objective_val, ao.AtLeastMeasurable.get_objective_val, ao.Optimization.compute_objective, ao.Optimization.get_initialization, ao.SpendingAdjustment.get_initialization, ao.Adjustable.get_hard_bounds, ac._update_parset, ac.calibrate, ac._calculate_objective, ao.optimize, ao._objective_fcn, ao.Optimization.update_instructions, ao.Optimization.constrain_instructions, ao.Optimization.get_hard_constraints, ao.Optimization.get_baselines]


def specs(tier):
    out = [("objective[%s]" % k, objective_body, dict(kind=k), ()) for k in ("single_year", "range", "pop_selection", "flow", "parameter_max", "spending", "spending_default")]
    out += [("threshold[at most]", threshold_body, dict(at_most=True), ()), ("threshold[at least]", threshold_body, dict(at_most=False), ())]
    for inc in (True, False):
        for tt in ("frac", "abs"):
            out.append(("relative_target[%s by;%s]" % ("increase" if inc else "decrease", tt), relative_target_body, dict(increase=inc, target_type=tt), ()))
    out += [("initialization[%s]" % lt, initialization_body, dict(limit_type=lt), ("InvalidInitialConditions",)) for lt in ("abs", "rel")]
    out.append(("update_parset", update_parset_body, dict(), ()))
    out.append(("calibrate_plumbing[asd stub]", calibrate_body, dict(fail=False), ()))
    out.append(("calibrate_plumbing[asd stub;failure at an evaluation]", calibrate_body, dict(fail=True), ()))
    out.append(("optimize_plumbing[asd+slsqp stubs]", optimize_body, dict(fail=False), ("FailedConstraint", "AssertionError", "UnresolvableConstraint", "InvalidInitialConditions")))
    out.append(("optimize_plumbing[asd+slsqp stubs;failure at an evaluation]", optimize_body, dict(fail=True), ("FailedConstraint", "AssertionError", "UnresolvableConstraint", "InvalidInitialConditions")))
    return out


def groups(tier):
    gs = []
    for nm, fac, kw, exc in specs(tier):
        body = fac(**kw)

        def g(tier_, seed, _b=body, _nm=nm, _kw=kw, _exc=exc):
            return run_body(_b, _nm, tier_, seed, functions=_funcs(), bounds=dict(_kw, model="M12, 2 populations, T=4"), stubs=["numpy/sciris in atomica.optimization, model, programs, utils -> vsym shims", "model outputs are free symbolic reals (no integration is run)"], timeout_ms=60000, declared_exceptions=_exc, max_paths=2000)

        g.__name__ = nm
        gs.append(g)
    return gs


def replay(rec):
    for nm, fac, kw, exc in specs("thorough"):
        if nm == rec["replay"]["group"]:
            return replay_body(fac(**kw), rec["model"], rec["replay"]["claim"])
    return False, "unknown group"
