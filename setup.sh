#!/bin/sh
# Build the overlay venv used by every check: /venv's packages + z3/cvc5/crosshair from the offline wheelhouse.
# Idempotent; offline.
set -e
cd "$(dirname "$0")"
V=/verif/.venv
if [ ! -x "$V/bin/python" ] || ! "$V/bin/python" -c "import z3, numpy, sciris" >/dev/null 2>&1; then
  rm -rf "$V"
  /venv/bin/python -m venv "$V"
  SP=$("$V/bin/python" -c "import sysconfig; print(sysconfig.get_paths()['purelib'])")
  printf "import site; site.addsitedir('/venv/lib/python3.12/site-packages')\n" > "$SP/_verif_overlay.pth"
  PIP_NO_INDEX=1 "$V/bin/pip" install --quiet --no-index --find-links /opt/veriftools/wheels z3-solver cvc5 crosshair-tool >/dev/null
fi
"$V/bin/python" -c "import z3, numpy, sciris; print('verif venv ok: z3', z3.get_version_string(), 'numpy', numpy.__version__)"
