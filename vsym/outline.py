"""
vsym.outline -- loop-body outlining.

A `for x in it:` loop at the top level of a function whose body branches on symbolic values is rewritten, from the
function's *current source*, into

    @__merged
    def __loopbody_k(x): <body with `continue` -> `return`>
    for x in it: __loopbody_k(x)

so that each iteration becomes a merge point (vsym.core.merged).  The transformation is mechanical and refuses
(HarnessError) when it could change behaviour: `break`/`return`/`yield` inside the loop, an `else` clause, a non-name
target, or names assigned in the body that are read elsewhere in the function.
"""

import ast
import inspect
import textwrap
from .core import HarnessError, merged


class _Cont(ast.NodeTransformer):
    def visit_Continue(self, node):
        return ast.copy_location(ast.Return(value=None), node)

    def visit_For(self, node):  # `continue` inside a nested loop belongs to that loop
        return node

    def visit_While(self, node):
        return node

    def visit_FunctionDef(self, node):
        return node

    def visit_Lambda(self, node):
        return node


def _assigned_names(nodes):
    out = set()
    for n in nodes:
        for x in ast.walk(n):
            if isinstance(x, ast.Name) and isinstance(x.ctx, (ast.Store, ast.Del)):
                out.add(x.id)
    return out


def _loaded_names(nodes):
    out = set()
    for n in nodes:
        for x in ast.walk(n):
            if isinstance(x, ast.Name) and isinstance(x.ctx, ast.Load):
                out.add(x.id)
    return out


def outline_loops(fn, which=None, merged_name="__merged"):
    """Return (module AST, function name, number of loops outlined) for fn with selected top-level for-loops outlined"""
    src = textwrap.dedent(inspect.getsource(fn))
    mod = ast.parse(src)
    fdef = mod.body[0]
    if not isinstance(fdef, ast.FunctionDef):
        raise HarnessError("outline: not a function")
    new_body = []
    n = 0
    done = 0
    for pos, st in enumerate(fdef.body):
        if isinstance(st, ast.For):
            if which is None or n in which:
                if not isinstance(st.target, ast.Name) or st.orelse:
                    raise HarnessError("outline: loop %d has a non-name target or an else clause" % n)
                for x in ast.walk(st):
                    if isinstance(x, (ast.Break, ast.Yield, ast.YieldFrom)) or (isinstance(x, ast.Return)):
                        raise HarnessError("outline: loop %d contains break/return/yield" % n)
                assigned = _assigned_names(st.body) - {st.target.id}
                rest = fdef.body[:pos] + fdef.body[pos + 1 :]
                # names assigned in the body must not be read outside the loop (they become locals of the outlined function)
                leak = assigned & _loaded_names(rest)
                # a name assigned in the body and read in the body before assignment on the next iteration would also change
                # meaning; conservatively refuse names that are assigned in the body *and* assigned outside it
                leak |= assigned & _assigned_names(rest)
                if leak:
                    raise HarnessError("outline: loop %d assigns names used outside the loop: %s" % (n, sorted(leak)))
                body = [_Cont().visit(s) for s in st.body]
                name = "__loopbody_%d" % n
                f = ast.FunctionDef(name=name, args=ast.arguments(posonlyargs=[], args=[ast.arg(arg=st.target.id)], kwonlyargs=[], kw_defaults=[], defaults=[]), body=body, decorator_list=[ast.Name(id=merged_name, ctx=ast.Load())], type_params=[])
                call = ast.Expr(ast.Call(func=ast.Name(id=name, ctx=ast.Load()), args=[ast.Name(id=st.target.id, ctx=ast.Load())], keywords=[]))
                st2 = ast.For(target=st.target, iter=st.iter, body=[call], orelse=[])
                new_body += [f, st2]
                done += 1
            else:
                new_body.append(st)
            n += 1
        else:
            new_body.append(st)
    fdef.body = new_body
    fdef.decorator_list = []
    ast.fix_missing_locations(mod)
    return mod, fdef.name, done


def outlined(fn, namespace, which=None, label=None):
    """Compile the outlined version of fn in `namespace` (the defining module's globals) and return the new function"""
    mod, name, done = outline_loops(fn, which=which)
    if which is not None and done != len(which):
        raise HarnessError("outline: expected %d loops, outlined %d" % (len(which), done))
    namespace["__merged"] = merged  # the live module namespace is used as globals so that shims installed later are seen
    loc = {}
    exec(compile(mod, "<outlined %s>" % (label or getattr(fn, "__qualname__", name)), "exec"), namespace, loc)
    new = loc[name]
    new.__wrapped__ = fn
    return new
