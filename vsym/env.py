"""
vsym.env -- harness bodies that run either symbolically (proxies + solver obligations) or concretely (plain floats,
no shims, unpatched code).  The same body is used for

* the proof:      SymEnv, explored over all paths, every claim becomes a solver obligation;
* vacuity guards: every completed path must be satisfiable; its model is a *witness*;
* witness replay: the witness values are run through ConcEnv (real numpy, real floats) and every claim proved
                  symbolically must also hold concretely (validates shims / merge points / encoding on every run);
* counterexample replay: a `sat` claim's model is run through ConcEnv; only if the same claim fails concretely is it
                  reported as a violation; otherwise it is an encoding error (exit 2).
"""

import math
import time
import z3
import numpy as np
from fractions import Fraction
from contextlib import contextmanager, nullcontext
from . import core
from .core import SR, SB, Ctx, lift, HarnessError, explore, Abort
from .shim import Installed


class ReplayUnavailable(Exception):
    """The concrete replay cannot be set up from this model (e.g. a cut value is missing)"""


class Cond:
    """A claim atom with an exact and a tolerance-relaxed form"""

    def __init__(self, exact, relaxed=None):
        self.exact = exact
        self.relaxed = relaxed if relaxed is not None else exact

    def __and__(self, o):
        o = _cond(o)
        return Cond(_and(self.exact, o.exact), _and(self.relaxed, o.relaxed))

    def __or__(self, o):
        o = _cond(o)
        return Cond(_or(self.exact, o.exact), _or(self.relaxed, o.relaxed))


def _cond(x):
    return x if isinstance(x, Cond) else Cond(x)


def _b(x):
    if isinstance(x, SB):
        return x.e
    if isinstance(x, (bool, np.bool_)):
        return z3.BoolVal(bool(x))
    if z3.is_expr(x):
        return x
    raise HarnessError("not a condition: %r" % (x,))


def _and(a, b):
    if isinstance(a, (bool, np.bool_)) and isinstance(b, (bool, np.bool_)):
        return bool(a) and bool(b)
    return SB(z3.And(_b(a), _b(b)))


def _or(a, b):
    if isinstance(a, (bool, np.bool_)) and isinstance(b, (bool, np.bool_)):
        return bool(a) or bool(b)
    return SB(z3.Or(_b(a), _b(b)))


class SymEnv:
    symbolic = True

    def __init__(self, ctx, tier="quick", on_claim=None):
        self.ctx = ctx
        self.tier = tier
        self.claims = []  # (name, key, Obligation)
        self.notes = {}
        self.on_claim = on_claim
        self.cutting = True

    # ---- inputs
    def real(self, name, lo=None, hi=None, strict_lo=False, strict_hi=False):
        return self.ctx.sym(name, lo, hi, strict_lo, strict_hi)

    def choice(self, name, options):
        """Finite choice explored by forking (structure parameters)"""
        v = z3.Int(name)
        self.ctx.inputs[name] = v
        for i, o in enumerate(options[:-1]):
            if bool(SB(v == i)):
                return o
        self.ctx.solver.add(v == len(options) - 1)
        return options[-1]

    def assume(self, cond, label=None):
        self.ctx.assume(_b(cond.exact if isinstance(cond, Cond) else cond), label)

    def installed(self, patches):
        return Installed(patches)

    def heap(self, objs):
        self.ctx.heap = list(objs)

    def declare_raises(self, *names):
        self.ctx.merge_exceptions = tuple(names)

    # ---- relations (a, b numbers or proxies)
    @staticmethod
    def _nan(*xs):
        for x in xs:
            if isinstance(x, np.ndarray) and x.size == 1:
                x = x.reshape(-1)[0]
            if isinstance(x, (float, np.floating)) and x != x:
                return True
        return False

    def eq(self, a, b, tol=1e-9):
        if self._nan(a, b):
            return Cond(SB(z3.BoolVal(False)))  # a NaN reached the claim: it cannot hold (C02: values stay finite)
        ea, eb = lift(a), lift(b)
        d = ea - eb
        m = z3.If(ea >= 0, ea, -ea)
        bound = z3.If(m >= 1, m, z3.RealVal(1)) * lift(tol)
        return Cond(SB(ea == eb), SB(z3.And(d <= bound, -d <= bound)))

    def le(self, a, b, tol=1e-9):
        if self._nan(a, b):
            return Cond(SB(z3.BoolVal(False)))
        ea, eb = lift(a), lift(b)
        m = z3.If(eb >= 0, eb, -eb)
        bound = z3.If(m >= 1, m, z3.RealVal(1)) * lift(tol)
        return Cond(SB(ea <= eb), SB(ea <= eb + bound))

    def ge(self, a, b, tol=1e-9):
        return self.le(b, a, tol)

    def lt_strict(self, a, b):
        return Cond(SB(lift(a) < lift(b)))

    def same(self, a, b, tol=0):
        """Relational equality: decided by term identity when the two runs built the same term (no solver call), else by eq"""
        if self._nan(a) and self._nan(b):
            return Cond(SB(z3.BoolVal(True)))  # not yet computed in both runs
        if self._nan(a, b):
            return Cond(SB(z3.BoolVal(False)))
        ea, eb = lift(a), lift(b)
        if ea.eq(eb):
            return Cond(SB(z3.BoolVal(True)))
        return self.eq(a, b, tol)

    def true(self, c):
        return Cond(c if isinstance(c, SB) else SB(_b(c)))

    def implies(self, p, c):
        c = _cond(c)
        return Cond(SB(z3.Implies(_b(p), _b(c.exact))), SB(z3.Implies(_b(p), _b(c.relaxed))))

    def all(self, conds):
        conds = [_cond(c) for c in conds]
        if not conds:
            return Cond(True)
        return Cond(SB(z3.And(*[_b(c.exact) for c in conds])), SB(z3.And(*[_b(c.relaxed) for c in conds])))

    def b(self, x):
        """bool-ish -> SB (no forking)"""
        return x if isinstance(x, SB) else SB(_b(x))

    def array(self, vals):
        from .shim import SymArray

        a = np.empty(len(vals), dtype=object)
        for i, v in enumerate(vals):
            a[i] = v
        return a.view(SymArray)

    def smax(self, a, b):
        return core.smax(a, b)

    def smin(self, a, b):
        return core.smin(a, b)

    def sabs(self, a):
        return abs(a)

    # ---- claims
    def claim(self, name, cond, key=None, under=None, meta=None, extra_axioms=()):
        """Obligation: cond must hold (optionally only under region condition `under`)"""
        cond = _cond(cond)
        ex, rx = _b(cond.exact), _b(cond.relaxed)
        if under is not None:
            u = _b(under)
            ex, rx = z3.Implies(u, ex), z3.Implies(u, rx)
        if extra_axioms:
            ax = z3.And(*extra_axioms)
            ex, rx = z3.Implies(ax, ex), z3.Implies(ax, rx)
        ob = self.ctx.prove(name, ex, meta=dict(meta or {}, key=key or name))
        if ob.status == "sat" and not rx.eq(ex):
            ob2 = self.ctx.prove(name, rx, meta=dict(meta or {}, key=key or name, relaxed=True))
            # the exact query is superseded by the tolerance query
            self.ctx.obligations.remove(ob)
            ob2.meta["exact_status"] = "sat"
            ob = ob2
        self.claims.append((name, key or name, ob))
        if self.on_claim:
            self.on_claim(name, key or name, ob)
            if ob.status == "sat":
                # a second counterexample whose values are exactly representable as doubles (multiples of 1/64): equalities the
                # violation depends on (a cache key that matches, a boundary that is hit) survive the conversion to floats
                fm = self._float_friendly_model(z3.Not(rx if ob.meta.get("relaxed") else ex))
                if fm is not None:
                    import copy as _copy

                    ob2 = _copy.copy(ob)
                    ob2.model = fm
                    self.on_claim(name, key or name, ob2)
        return ob

    def _float_friendly_model(self, neg, timeout_ms=3000):
        s = self.ctx.solver
        s.push()
        try:
            s.set("timeout", timeout_ms)
            s.add(neg)
            for k, v in self.ctx.inputs.items():
                if z3.is_real(v):
                    s.add(z3.IsInt(v * 64))
            r = s.check()
            import os as _os

            if _os.environ.get("VERIF_DEBUG"):
                print("[friendly model]", r, flush=True)
            if r == z3.sat:
                return self.ctx.model_dict()
        except z3.Z3Exception:
            pass
        finally:
            s.pop()
        return None

    def cut(self, value, name, guarantees=(), inject=True):
        """Replace a term by a fresh variable carrying only `guarantees(fresh)` (each proved by an earlier claim)"""
        key = "%s!cut" % name
        if key in self.ctx.inputs:
            raise HarnessError("duplicate cut name %s" % name)
        var = z3.Real(key)
        self.ctx.inputs[key] = var
        v = SR(var)
        for g in guarantees:
            c = g(v)
            self.ctx.solver.add(_b(c.exact if isinstance(c, Cond) else c))
        return v

    def nonfinite_guards(self):
        """Conditions under which the executed code stored a NaN/inf (see core.ite); must be proved unreachable or assumed away"""
        return [SB(g) for g, v in self.ctx.nonfinite]

    def check_reachable(self, name):
        """Explicit vacuity guard at this point of the body"""
        return self.ctx.reachable(name)

    def claim_possible(self, name, cond, key=None, meta=None):
        """Obligation of the existential kind: `cond` must be satisfiable on this path (e.g. two samples *can* differ).
        Recorded as discharged when the solver finds a model; if it is impossible the claim is reported like a violated
        claim, with a model of the path for the concrete replay (where cond then evaluates to False)"""
        from .core import Obligation, _short

        c = _b(cond.exact if isinstance(cond, Cond) else cond)
        ob = Obligation(name, dict(meta or {}, key=key or name, kind="possible"))
        import time as _t

        t0 = _t.time()
        status, model, reason, how = self.ctx.solve(c, self.ctx.timeout_ms)
        ob.time = _t.time() - t0
        ob.text = "possible: " + _short(c)
        ob.size = 10
        ob.nontrivial = True
        if status == "sat":
            ob.status = "unsat"  # discharged
        elif status == "unsat":
            st2, m2, _, _ = self.ctx.solve(z3.BoolVal(True), self.ctx.timeout_ms)
            ob.status = "sat"
            ob.model = m2 if st2 == "sat" else {}
        else:
            ob.status = "unknown"
            ob.reason = reason
        self.ctx.obligations.append(ob)
        self.claims.append((name, key or name, ob))
        if self.on_claim:
            self.on_claim(name, key or name, ob)
            if ob.status == "sat":
                # a second counterexample whose values are exactly representable as doubles (multiples of 1/64): equalities the
                # violation depends on (a cache key that matches, a boundary that is hit) survive the conversion to floats
                fm = self._float_friendly_model(z3.Not(rx if ob.meta.get("relaxed") else ex))
                if fm is not None:
                    import copy as _copy

                    ob2 = _copy.copy(ob)
                    ob2.model = fm
                    self.on_claim(name, key or name, ob2)
        return ob

    def _float_friendly_model(self, neg, timeout_ms=3000):
        s = self.ctx.solver
        s.push()
        try:
            s.set("timeout", timeout_ms)
            s.add(neg)
            for k, v in self.ctx.inputs.items():
                if z3.is_real(v):
                    s.add(z3.IsInt(v * 64))
            r = s.check()
            import os as _os

            if _os.environ.get("VERIF_DEBUG"):
                print("[friendly model]", r, flush=True)
            if r == z3.sat:
                return self.ctx.model_dict()
        except z3.Z3Exception:
            pass
        finally:
            s.pop()
        return None

    def raised(self, exname=None):
        """Symbolic condition under which a declared exception was raised at merge points so far"""
        cs = [rc for (_, en, rc) in self.ctx.raise_conds if exname is None or en == exname]
        return SB(z3.Or(*cs)) if cs else SB(z3.BoolVal(False))

    def note(self, k, v):
        self.notes[k] = v


class ConcEnv:
    symbolic = False

    def __init__(self, values, tier="quick", inject=False):
        self.values = values
        self.tier = tier
        self.inject = inject
        self.cutting = inject
        self.results = {}  # claim name -> bool
        self.detail = {}
        self.assume_failed = []
        self.assume_ok_at = {}  # claim name -> no assumption had failed when the claim was evaluated (assumptions are not retroactive)
        self.notes = {}

    def real(self, name, lo=None, hi=None, strict_lo=False, strict_hi=False):
        if name not in self.values:
            # the concrete run asks for an input the symbolic path never created: it left that path (float rounding of the model)
            raise ReplayUnavailable("replay value for %s missing" % name)
        return float(Fraction(self.values[name]))

    def choice(self, name, options):
        return options[int(Fraction(self.values[name]))]

    def assume(self, cond, label=None):
        c = cond.relaxed if isinstance(cond, Cond) else cond
        if not bool(c):
            self.assume_failed.append(label or "assumption")

    def installed(self, patches):
        # the shims are for the symbolic run only; a patch marked "concrete" (4th element) is an environment stub that is fed
        # from the model when a counterexample is replayed (e.g. the output of an external optimizer)
        keep = [p[:3] for p in patches if len(p) > 3 and p[3] == "concrete"]
        return Installed(keep) if keep else nullcontext()

    def heap(self, objs):
        pass

    def declare_raises(self, *names):
        pass

    @staticmethod
    def _f(x):
        if isinstance(x, np.ndarray):
            x = x.reshape(-1)[0]
        return float(x)

    def eq(self, a, b, tol=1e-9):
        a, b = self._f(a), self._f(b)
        if math.isnan(a) or math.isnan(b):
            return Cond(False)
        if a == b:
            return Cond(True)
        # claims that are exact in real arithmetic (tol=0) are given a few ulps in the float replay
        return Cond(a == b, abs(a - b) <= max(0.5 * tol, 1e-12) * max(1.0, abs(a), abs(b)))

    def le(self, a, b, tol=1e-9):
        a, b = self._f(a), self._f(b)
        if math.isnan(a) or math.isnan(b):
            return Cond(False)
        return Cond(a <= b, a <= b + max(0.5 * tol, 1e-12) * max(1.0, abs(a), abs(b)))

    def ge(self, a, b, tol=1e-9):
        return self.le(b, a, tol)

    def lt_strict(self, a, b):
        return Cond(self._f(a) < self._f(b))

    def same(self, a, b, tol=0):
        fa, fb = self._f(a), self._f(b)
        if math.isnan(fa) and math.isnan(fb):
            return Cond(True)
        return self.eq(a, b, tol)

    def true(self, c):
        return Cond(bool(c))

    def implies(self, p, c):
        c = _cond(c)
        if not bool(p):
            return Cond(True)
        return c

    def all(self, conds):
        conds = [_cond(c) for c in conds]
        return Cond(all(bool(c.exact) for c in conds), all(bool(c.relaxed) for c in conds))

    def b(self, x):
        return bool(x)

    def array(self, vals):
        return np.array([float(v) for v in vals], dtype=float)

    def smax(self, a, b):
        return max(a, b)

    def smin(self, a, b):
        return min(a, b)

    def sabs(self, a):
        return abs(a)

    def claim(self, name, cond, key=None, under=None, meta=None, extra_axioms=()):
        cond = _cond(cond)
        self.assume_ok_at[name] = not self.assume_failed
        if under is not None and not bool(under):
            self.results[name] = True
            return
        self.results[name] = bool(cond.relaxed)

    def cut(self, value, name, guarantees=(), inject=True):
        # Replaying a model of the abstraction: the cut point takes the model's value (an arbitrary state satisfying the
        # proved guarantees), so that the real code is run from exactly the state the solver chose
        k = "%s!cut" % name
        if self.inject and inject and k in self.values:
            return float(Fraction(self.values[k]))
        if value is None:
            raise ReplayUnavailable("no value for cut point %s" % name)
        return value

    def nonfinite_guards(self):
        return []

    def check_reachable(self, name):
        return None

    def claim_possible(self, name, cond, key=None, meta=None):
        c = cond.relaxed if isinstance(cond, Cond) else cond
        self.results[name] = bool(c)

    def raised(self, exname=None):
        return False

    def note(self, k, v):
        self.notes[k] = v


def run_body(body, name, tier, seed, functions=(), bounds=None, stubs=(), timeout_ms=60000, declared_exceptions=(), known_keys=(), max_paths=20000, replay_witnesses=True, feasibility=True, final_reach=True):
    """
    Explore `body(env)` symbolically over all paths; replay witnesses and counterexamples concretely.

    declared_exceptions: exception class names which the body may legitimately raise *concretely*; in the symbolic run
    they are collected at merge points (env.raised()).
    Returns a group-result dict (see report.py)
    """
    t0 = time.time()
    res = dict(name=name, functions=list(functions), bounds=bounds or {}, stubs=list(stubs), assumptions=[], obligations=[], violations=[], errors=[], witnesses=0, stats={})
    sat_claims = []  # (claim name, key, model)
    unsat_names_by_path = []
    witness_models = []
    claim_keys = {}

    def fn(ctx):
        ok_names = set()

        def on_claim(cname, key, ob):
            claim_keys[cname] = key
            if ob.status == "sat":
                sat_claims.append((cname, key, ob.model, ob.text))
            elif ob.status == "unsat":
                ok_names.add(cname)

        env = SymEnv(ctx, tier, on_claim=on_claim)
        ctx.merge_exceptions = tuple(declared_exceptions)
        try:
            body(env)
        except Exception as e:  # raised by the code under analysis (engine exceptions derive from BaseException)
            if type(e).__name__ in declared_exceptions:
                return True
            # an undeclared exception on a feasible path is a crash candidate: take a model of the path and replay it
            from .core import Obligation
            import traceback as _tb

            frames = _tb.extract_tb(e.__traceback__)
            if not any("/atomica/" in f.filename and "/verif/" not in f.filename for f in frames[-3:]):
                # raised by harness code itself, not by the code under analysis
                raise HarnessError("harness raised %s: %s at %s:%d" % (type(e).__name__, e, frames[-1].filename, frames[-1].lineno))

            w = ctx.reachable("path-of-crash")
            ctx.obligations.remove(w)
            ob = Obligation("no_undeclared_exception", dict(key="crash[%s]" % type(e).__name__))
            ob.text = "%s: %s | %s" % (type(e).__name__, str(e)[:200], " <- ".join("%s:%d" % (f.name, f.lineno) for f in _tb.extract_tb(e.__traceback__)[-3:]))
            ob.nontrivial = True
            ob.size = 2
            if w.status == "sat":
                ob.status = "sat"
                ob.model = w.model
                sat_claims.append(("no_undeclared_exception", "crash[%s]" % type(e).__name__, w.model, ob.text))
            else:
                ob.status = "unsat" if w.status == "unsat" else "unknown"  # the path is infeasible: the exception cannot happen
            ctx.obligations.append(ob)
            return True
        if final_reach:
            w = ctx.reachable("path-reachable")
            if w.status == "sat":
                witness_models.append((w.model, ok_names))
                # a second, diversified witness (inputs non-zero and pairwise different where the path allows it): the default model
                # of a path is mostly zeros, which hides differences between the shims and real numpy (dtype-dependent code paths)
                try:
                    ins = [v for k, v in ctx.inputs.items() if z3.is_real(v) and not k.endswith("!cut")][:10]
                    if ins:
                        div = [v != 0 for v in ins] + [a != b for i, a in enumerate(ins) for b in ins[i + 1 :]]
                        ctx.solver.push()
                        try:
                            ctx.solver.set("timeout", 1500)
                            ctx.solver.add(*div)
                            if ctx.solver.check() == z3.sat:
                                witness_models.append((ctx.model_dict(), ok_names))
                        finally:
                            ctx.solver.pop()
                except z3.Z3Exception:
                    pass
        return True

    st = explore(fn, timeout_ms=timeout_ms, seed=seed, max_paths=max_paths, feasibility=feasibility)
    res["assumptions"] = st["assumptions"]
    res["obligations"] = [o.as_dict() for o in st["obligations"]]
    res["stats"] = dict(paths=st["paths"], queries=st["queries"], solver_time=round(st["solver_time"], 3), merge_calls=st["merge_calls"], merge_local_paths=st["merge_local_paths"], aborted=st["aborted"])
    if st["paths"] == st["aborted"]:
        res["errors"].append("every path was infeasible or aborted (vacuous harness)")

    sat_names = {c[0] for c in sat_claims}
    # witness replay
    if replay_witnesses:
        for model, ok_names in witness_models[:64]:
            env = ConcEnv(model, tier, inject=True)
            try:
                body(env)
            except ReplayUnavailable:
                continue
            except Exception as e:
                if type(e).__name__ in declared_exceptions:
                    continue
                res["errors"].append("witness replay raised %s: %s (model %s)" % (type(e).__name__, e, _trim(model)))
                continue
            if env.assume_failed:
                continue  # float rounding of the witness left the assumed region
            bad = [n for n, v in env.results.items() if not v and n in ok_names and n not in sat_names]
            if bad:
                # The real, unpatched code fails a claim on an in-domain input although the encoding proved it: the encoding
                # abstracts something the code depends on (typically a dtype-dependent numpy path). The concrete failure is a
                # violation of the property in its own right and is reported as such (it replays like any counterexample);
                # auxiliary lemmas (solver aids, not property statements) only count as an encoding error.
                real = [n for n in bad if "lemma" not in n and env.assume_ok_at.get(n, True)]
                for n in real[:4]:
                    if not any(v.get("replay", {}).get("claim") == n for v in res["violations"]):
                        res["violations"].append(dict(key="%s:%s" % (name, claim_keys.get(n, n)), what="%s fails on the real code for the witness input of a path on which the encoding proved it (the encoding abstracts a feature this code path depends on)" % n, model=model, obligations=[n], replay=dict(group=name, claim=n)))
                if not real:
                    res["errors"].append("witness replay: claims %s proved symbolically fail concretely (encoding error?) model=%s" % (bad[:4], _trim(model)))
            else:
                res["witnesses"] += 1

    # counterexample replay: a claim is a violation if any of its models reproduces on the real code
    by_claim = {}
    for cname, key, model, text in sat_claims:
        by_claim.setdefault((cname, key), []).append((model, text))
    for (cname, key), models in by_claim.items():
        reproduced = False
        details = []
        for model, text in models[:8]:
          for inject in (False, True):
            if inject and not any("!cut" in k for k in model):
                continue
            env = ConcEnv(model, tier, inject=inject)
            detail = ""
            try:
                body(env)
                if cname in env.results and not env.results[cname] and env.assume_ok_at.get(cname, True):
                    # the claim fails on the real code and every assumption placed before it held (an assumption that fails
                    # *after* the claim - e.g. a cut justified by this very claim - does not excuse it)
                    reproduced = True
                    detail = "(replayed from the solver's intermediate state at the cut points)" if inject else ""
                elif env.assume_failed:
                    detail = "model left the assumed region after conversion to float: %s" % env.assume_failed
                elif cname in env.results and not env.results[cname]:
                    reproduced = True
                    detail = "(replayed from the solver's intermediate state at the cut points)" if inject else ""
                elif cname == "no_undeclared_exception":
                    detail = "no exception raised concretely"
                else:
                    detail = "claim holds concretely" if cname in env.results else "claim not reached concretely"
            except ReplayUnavailable as e:
                detail = str(e)
            except Exception as e:
                if type(e).__name__ in declared_exceptions:
                    detail = "declared exception %s raised concretely" % type(e).__name__
                else:
                    # an undeclared crash on the counterexample input is itself a reproduction of a failure
                    reproduced = True
                    detail = "raised %s: %s" % (type(e).__name__, e)
            if reproduced:
                break
            details.append(detail)
          if True:
            if reproduced:
                res["violations"].append(dict(key="%s:%s" % (name, key), what="%s fails: %s %s" % (cname, text, detail), model=model, obligations=[cname], replay=dict(group=name, claim=cname)))
                break
            details.append(detail)
        if not reproduced:
            res["errors"].append("counterexample for %s does not reproduce against the real code (%s); model=%s" % (cname, details[:2], _trim(models[0][0])))
    res["wall_s"] = round(time.time() - t0, 3)
    return res


def _trim(m, n=12):
    items = list(m.items())[:n]
    return {k: (v if len(v) < 40 else "%.12g" % float(Fraction(v))) for k, v in items}


def replay_body(body, model, claim, tier="quick"):
    last = "claim %s not reached" % claim
    for inject in (False, True):
        if inject and not any("!cut" in k for k in model):
            continue
        env = ConcEnv(model, tier, inject=inject)
        try:
            body(env)
        except ReplayUnavailable as e:
            last = str(e)
            continue
        except Exception as e:
            return True, "raised %s: %s" % (type(e).__name__, e)
        if claim in env.results:
            last = "claim %s evaluates to %s on the real code%s" % (claim, env.results[claim], " (from the intermediate state of the counterexample)" if inject else "")
            if not env.results[claim]:
                return True, last
    return False, last
