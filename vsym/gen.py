"""
vsym.gen -- generated micro-frameworks, loaded through the real ProjectFramework / ProjectData / Project code.

A framework spec is a dict:
    comps:   list of dict(name, source|sink|junction='y', default, setup=True/False (databook entry))
    characs: list of dict(name, components='a,b', denominator=None, setup=True/False)
    pars:    list of dict(name, format, timescale, default, function, targetable, timed, min, max, databook=True)
    transitions: {(src, dst): 'par' or '>' }
    interactions: list of names (optional)
"""

import io
import numpy as np


def make_framework(spec):
    import openpyxl
    import atomica as at
    import sciris as sc

    comps = spec["comps"]
    pars = spec["pars"]
    characs = spec.get("characs", [])
    transitions = spec["transitions"]
    wb = openpyxl.Workbook()
    ws = wb.active
    ws.title = "About"
    ws.append(["Name", "Description"])
    ws.append([spec.get("name", "micro"), "generated"])
    ws = wb.create_sheet("Databook Pages")
    ws.append(["Datasheet code name", "Datasheet title"])
    ws.append(["stocks", "Stocks"])
    ws.append(["flows", "Flows"])
    ws = wb.create_sheet("Compartments")
    ws.append(["Code name", "Display name", "Is source", "Is sink", "Is junction", "Default value", "Databook page"])
    for c in comps:
        special = c.get("source") or c.get("sink")
        in_book = (not special) and c.get("setup", not c.get("junction"))
        ws.append([c["name"], c["name"], c.get("source"), c.get("sink"), c.get("junction"), c.get("default", 0) if in_book else c.get("default"), "stocks" if in_book else None])
    ws = wb.create_sheet("Characteristics")
    ws.append(["Code name", "Display name", "Components", "Denominator", "Databook page", "Default value"])
    for ch in characs:
        in_book = ch.get("setup", True)
        ws.append([ch["name"], ch["name"], ch["components"], ch.get("denominator"), "stocks" if in_book else None, ch.get("default", 0) if in_book else None])
    if spec.get("interactions"):
        ws = wb.create_sheet("Interactions")
        ws.append(["Code name", "Display name", "Default value"])
        for nm in spec["interactions"]:
            ws.append([nm, nm, 1])
    ws = wb.create_sheet("Transitions")
    names = [c["name"] for c in comps]
    ws.append(["Transition matrix"] + names)
    for a in names:
        ws.append([a] + [transitions.get((a, b)) for b in names])
    ws = wb.create_sheet("Parameters")
    ws.append(["Code name", "Display name", "Format", "Timescale", "Default value", "Function", "Targetable", "Databook page", "Timed", "Minimum value", "Maximum value", "Is derivative"])
    for p in pars:
        in_book = p.get("databook", not p.get("function"))
        ws.append([p["name"], p["name"], p["format"], p.get("timescale"), p.get("default"), p.get("function"), p.get("targetable"), "flows" if in_book else None, p.get("timed"), p.get("min"), p.get("max"), p.get("derivative")])
    bio = io.BytesIO()
    wb.save(bio)
    bio.seek(0)
    return at.ProjectFramework(sc.Spreadsheet(bio))


def make_project(spec, pops=1, transfers=0, years=(2000.0,), start=2000.0, end=2001.0, dt=0.25, interactions=0):
    import atomica as at

    F = make_framework(spec)
    D = at.ProjectData.new(F, np.array(list(years), dtype=float), pops=pops, transfers=transfers)
    # a new databook has empty transfer tables: enter a value for every ordered pair of distinct populations
    pnames = list(D.pops.keys())
    for tr in D.transfers:
        for i, a in enumerate(pnames):
            for j, b in enumerate(pnames):
                if i != j:
                    tr.ts[(a, b)] = at.TimeSeries(assumption=0.05 / (1 + i + j), units="Probability (per year)")
    P = at.Project(framework=F, databook=D.to_spreadsheet(), do_run=False)
    P.settings.update_time_vector(start=start, end=end, dt=dt)
    return P


# ---------------------------------------------------------------------------------------------------------------
# Catalogue of micro-models (DESIGN.md §4)
# ---------------------------------------------------------------------------------------------------------------


def M1():
    """chain with source and sink, every unit type"""
    return dict(
        name="M1",
        comps=[dict(name="src", source="y"), dict(name="a", default=100), dict(name="b", default=50), dict(name="c", default=10), dict(name="dead", sink="y")],
        pars=[dict(name="birth", format="number", default=10), dict(name="ab", format="probability", default=0.2, timescale=0.5), dict(name="bc", format="duration", default=2.0), dict(name="ca", format="rate", default=0.3), dict(name="mort", format="number", default=3)],
        transitions={("src", "a"): "birth", ("a", "b"): "ab", ("b", "c"): "bc", ("c", "a"): "ca", ("c", "dead"): "mort"},
    )


def M2():
    """cycle of three ordinary compartments with competing outflows of all unit types; one parameter on two links"""
    return dict(
        name="M2",
        comps=[dict(name="a", default=100), dict(name="b", default=50), dict(name="c", default=10)],
        pars=[dict(name="ab", format="probability", default=0.9), dict(name="ac", format="duration", default=0.1), dict(name="bc", format="rate", default=3.0, timescale=2.0), dict(name="out", format="number", default=30)],
        transitions={("a", "b"): "ab", ("a", "c"): "ac", ("b", "c"): "bc", ("c", "a"): "out", ("b", "a"): "out"},
        characs=[dict(name="alive", components="a,b,c", setup=False)],
    )


def M4():
    """junction fan with three outflows"""
    return dict(
        name="M4",
        comps=[dict(name="a", default=100), dict(name="j", junction="y"), dict(name="b", default=5), dict(name="c", default=6), dict(name="d", default=7)],
        pars=[dict(name="aj", format="probability", default=0.4), dict(name="p1", format="proportion", default=0.2), dict(name="p2", format="proportion", default=0.3), dict(name="p3", format="proportion", default=0.5), dict(name="back", format="rate", default=0.1)],
        transitions={("a", "j"): "aj", ("j", "b"): "p1", ("j", "c"): "p2", ("j", "d"): "p3", ("b", "a"): "back", ("c", "a"): "back", ("d", "a"): "back"},
    )


def M5():
    """junction chain / diamond: j1 -> (j2, j3) -> x ; j3 listed before j2's consumer"""
    return dict(
        name="M5",
        comps=[dict(name="a", default=100), dict(name="j3", junction="y"), dict(name="j1", junction="y", setup=True, default=12), dict(name="j2", junction="y"), dict(name="x", default=1), dict(name="y", default=2)],
        pars=[dict(name="aj", format="probability", default=0.4), dict(name="p12", format="proportion", default=0.5), dict(name="p13", format="proportion", default=0.5), dict(name="p2x", format="proportion", default=1.0), dict(name="p3x", format="proportion", default=0.25), dict(name="p3y", format="proportion", default=0.75), dict(name="back", format="rate", default=0.1)],
        transitions={("a", "j1"): "aj", ("j1", "j2"): "p12", ("j1", "j3"): "p13", ("j2", "x"): "p2x", ("j3", "x"): "p3x", ("j3", "y"): "p3y", ("x", "a"): "back", ("y", "a"): "back"},
    )


def M5C():
    """chain of three junctions j1 -> j2 -> j3 listed in the framework as j3, j2, j1 (the execution order must come from the graph)"""
    return dict(
        name="M5C",
        comps=[dict(name="a", default=100), dict(name="j3", junction="y"), dict(name="j2", junction="y"), dict(name="j1", junction="y", setup=True, default=12), dict(name="x", default=1), dict(name="y", default=2), dict(name="z", default=3)],
        pars=[dict(name="aj", format="probability", default=0.4), dict(name="p12", format="proportion", default=0.7), dict(name="p1x", format="proportion", default=0.3), dict(name="p23", format="proportion", default=0.5), dict(name="p2y", format="proportion", default=0.5), dict(name="p3z", format="proportion", default=0.8), dict(name="p3x", format="proportion", default=0.2), dict(name="back", format="rate", default=0.1)],
        transitions={("a", "j1"): "aj", ("j1", "j2"): "p12", ("j1", "x"): "p1x", ("j2", "j3"): "p23", ("j2", "y"): "p2y", ("j3", "z"): "p3z", ("j3", "x"): "p3x", ("x", "a"): "back", ("y", "a"): "back", ("z", "a"): "back"},
    )


def M5F():
    """junction whose outflow proportion is a *function* of the model state (the initial flush must use the function value at t0,
    not the databook default): a -> j -> (b via pb = 0.25 + 1e-6*a, c via pc)"""
    return dict(
        name="M5F",
        comps=[dict(name="a", default=100), dict(name="j", junction="y", setup=True, default=12), dict(name="b", default=5), dict(name="c", default=6)],
        pars=[dict(name="aj", format="probability", default=0.4), dict(name="pb", format="proportion", default=0.5, function="0.25+0.000001*a", databook=True), dict(name="pc", format="proportion", default=0.5), dict(name="back", format="rate", default=0.1)],
        transitions={("a", "j"): "aj", ("j", "b"): "pb", ("j", "c"): "pc", ("b", "a"): "back", ("c", "a"): "back"},
    )


FLUSH_SPEC = dict(M5F=dict(pb=lambda stock: 0.25 + 0.000001 * stock["a"]))  # function-valued proportions: value on the initial state


def M5R():
    """residual outflow of a junction feeds a second junction that is listed *before* it (execution order must come from the graph)"""
    return dict(
        name="M5R",
        comps=[dict(name="a", default=100), dict(name="jb", junction="y"), dict(name="ja", junction="y", setup=True, default=20), dict(name="x", default=1), dict(name="y", default=2), dict(name="z", default=3)],
        pars=[dict(name="aj", format="probability", default=0.4), dict(name="pax", format="proportion", default=0.3), dict(name="pby", format="proportion", default=0.6), dict(name="pbz", format="proportion", default=0.4), dict(name="back", format="rate", default=0.1)],
        transitions={("a", "ja"): "aj", ("ja", "x"): "pax", ("ja", "jb"): ">", ("jb", "y"): "pby", ("jb", "z"): "pbz", ("x", "a"): "back", ("y", "a"): "back", ("z", "a"): "back"},
    )


def M6():
    """residual junction"""
    return dict(
        name="M6",
        comps=[dict(name="a", default=100), dict(name="j", junction="y"), dict(name="b", default=5), dict(name="c", default=6)],
        pars=[dict(name="aj", format="probability", default=0.4), dict(name="p1", format="proportion", default=0.3), dict(name="back", format="rate", default=0.1)],
        transitions={("a", "j"): "aj", ("j", "b"): "p1", ("j", "c"): ">", ("b", "a"): "back", ("c", "a"): "back"},
    )


def M6S():
    """flows that enter a sink directly from a junction (residual and stated) and from a source compartment"""
    return dict(
        name="M6S",
        comps=[dict(name="src", source="y"), dict(name="a", default=100), dict(name="j", junction="y", setup=True, default=9), dict(name="b", default=5), dict(name="dead", sink="y"), dict(name="lostb", sink="y")],
        pars=[dict(name="birth", format="number", default=12), dict(name="still", format="number", default=3), dict(name="aj", format="probability", default=0.4), dict(name="pd", format="proportion", default=0.3), dict(name="back", format="rate", default=0.1)],
        transitions={("src", "a"): "birth", ("src", "lostb"): "still", ("a", "j"): "aj", ("j", "dead"): "pd", ("j", "b"): ">", ("b", "a"): "back"},
    )


def M7(dur=0.5):
    """timed compartment with flush + ordinary outflow"""
    return dict(
        name="M7",
        comps=[dict(name="src", source="y"), dict(name="a", default=100), dict(name="v", default=40), dict(name="r", default=0), dict(name="dead", sink="y")],
        pars=[dict(name="birth", format="number", default=20), dict(name="vac", format="probability", default=0.3), dict(name="dur", format="duration", default=dur, timed="y"), dict(name="loss", format="rate", default=0.2), dict(name="mort", format="probability", default=0.05)],
        transitions={("src", "a"): "birth", ("a", "v"): "vac", ("v", "r"): "dur", ("v", "a"): "loss", ("r", "dead"): "mort"},
    )


def M8(dur=0.5):
    """duration group of two compartments linked directly and via a junction"""
    return dict(
        name="M8",
        comps=[dict(name="a", default=100), dict(name="v1", default=40), dict(name="jv", junction="y"), dict(name="v2", default=10), dict(name="v3", default=5), dict(name="r", default=0)],
        pars=[dict(name="vac", format="probability", default=0.3), dict(name="dur", format="duration", default=dur, timed="y"), dict(name="prog", format="probability", default=0.4), dict(name="viaj", format="probability", default=0.2), dict(name="q2", format="proportion", default=0.6), dict(name="q3", format="proportion", default=0.4), dict(name="back", format="rate", default=0.1)],
        transitions={("a", "v1"): "vac", ("v1", "r"): "dur", ("v2", "r"): "dur", ("v3", "r"): "dur", ("v1", "v2"): "prog", ("v1", "jv"): "viaj", ("jv", "v2"): "q2", ("jv", "v3"): "q3", ("r", "a"): "back"},
    )


def M8J(dur=0.5):
    """junction of a duration group with TWO timed inflows (v1 -> jv <- v2) and two timed outflows (jv -> v3, jv -> v4)"""
    return dict(
        name="M8J",
        comps=[dict(name="a", default=100), dict(name="v1", default=40), dict(name="v2", default=10), dict(name="jv", junction="y"), dict(name="v3", default=5), dict(name="v4", default=2), dict(name="r", default=0)],
        pars=[dict(name="vac", format="probability", default=0.3), dict(name="vac2", format="probability", default=0.1), dict(name="dur", format="duration", default=dur, timed="y"), dict(name="via1", format="probability", default=0.2), dict(name="via2", format="probability", default=0.3), dict(name="q3", format="proportion", default=0.6), dict(name="q4", format="proportion", default=0.4), dict(name="back", format="rate", default=0.1)],
        transitions={("a", "v1"): "vac", ("a", "v2"): "vac2", ("v1", "r"): "dur", ("v2", "r"): "dur", ("v3", "r"): "dur", ("v4", "r"): "dur", ("v1", "jv"): "via1", ("v2", "jv"): "via2", ("jv", "v3"): "q3", ("jv", "v4"): "q4", ("r", "a"): "back"},
    )


def M8R(dur=0.5):
    """residual junction inside a duration group: v1 -> jv, jv -> v2 (proportion), jv -> v3 (residual), all flushed by the same timed parameter"""
    return dict(
        name="M8R",
        comps=[dict(name="a", default=100), dict(name="v1", default=40), dict(name="jv", junction="y"), dict(name="v2", default=10), dict(name="v3", default=5), dict(name="r", default=0)],
        pars=[dict(name="vac", format="probability", default=0.3), dict(name="dur", format="duration", default=dur, timed="y"), dict(name="viaj", format="probability", default=0.2), dict(name="q2", format="proportion", default=0.6), dict(name="back", format="rate", default=0.1)],
        transitions={("a", "v1"): "vac", ("v1", "r"): "dur", ("v2", "r"): "dur", ("v3", "r"): "dur", ("v1", "jv"): "viaj", ("jv", "v2"): "q2", ("jv", "v3"): ">", ("r", "a"): "back"},
    )


def M8B(dur=0.5):
    """two different duration groups with an ordinary transition from one into the other (elapsed time must restart)"""
    return dict(
        name="M8B",
        comps=[dict(name="a", default=100), dict(name="v", default=40), dict(name="w", default=10), dict(name="r", default=0)],
        pars=[dict(name="vac", format="probability", default=0.3), dict(name="dur", format="duration", default=dur, timed="y"), dict(name="dur2", format="duration", default=0.75, timed="y"), dict(name="prog", format="probability", default=0.4), dict(name="back", format="rate", default=0.1)],
        transitions={("a", "v"): "vac", ("v", "r"): "dur", ("w", "r"): "dur2", ("v", "w"): "prog", ("r", "a"): "back"},
    )


def M10():
    """function parameters: chain and diamond of dependencies on compartments / characteristics / t, with limits"""
    return dict(
        name="M10",
        comps=[dict(name="sus", default=900), dict(name="inf", default=100), dict(name="rec", default=0)],
        characs=[dict(name="alive", components="sus,inf,rec", setup=False), dict(name="prev", components="inf", denominator="alive", setup=False)],
        pars=[
            dict(name="beta", format="number", default=0.5, databook=True),
            dict(name="mult", format="number", default=1.0, databook=True, min=0.5, max=2.0),
            dict(name="base", format="number", function="beta*mult", min=0.0, max=0.8),
            dict(name="foi", format="probability", function="base*prev", max=0.6),
            dict(name="foi2", format="number", function="foi*2+base"),
            dict(name="recov", format="duration", default=2.0, min=0.1),
            dict(name="wane", format="rate", function="max(0,0.2-0.01*(t-2000))*mult"),
            dict(name="trend", format="number", function="0.1+0.01*(t-2000)"),
            dict(name="net", format="number", function="0.05-prev", min=0.0),
            dict(name="capped", format="number", function="prev-0.05", max=0.0),
        ],
        transitions={("sus", "inf"): "foi", ("inf", "rec"): "recov", ("rec", "sus"): "wane"},
    )


def M10F():
    """function parameters that depend on flows (annualised sum over every matching link): by parameter, by pair, by destination"""
    return dict(
        name="M10F",
        comps=[dict(name="sus", default=900), dict(name="inf", default=100), dict(name="dead", sink="y")],
        pars=[
            dict(name="foi", format="probability", default=0.2),
            dict(name="mort", format="rate", default=0.1),
            dict(name="deaths", format="number", function="mort:flow"),
            dict(name="newinf", format="number", function="sus:inf"),
            dict(name="alldeaths", format="number", function=":dead*2"),
        ],
        transitions={("sus", "inf"): "foi", ("sus", "dead"): "mort", ("inf", "dead"): "mort"},
    )


def M7F():
    """timed compartment whose duration is a framework *function* of another parameter (2*base = 1.0 y; its own default differs)"""
    d = M7()
    d["name"] = "M7F"
    d["pars"] = [dict(name="base", format="number", default=0.5, databook=True)] + [dict(p, function="2*base", default=0.25, databook=False) if p["name"] == "dur" else p for p in d["pars"]]
    return d


def M12():
    """program-targeted parameters: number, probability, proportion (via a junction)"""
    return dict(
        name="M12",
        comps=[dict(name="undx", default=500), dict(name="j", junction="y"), dict(name="dx", default=100), dict(name="tx", default=50), dict(name="lost", default=10)],
        pars=[
            dict(name="test", format="probability", default=0.2, targetable="y"),
            dict(name="ptx", format="proportion", default=0.6, targetable="y", min=0, max=1),
            dict(name="treat", format="number", default=20, targetable="y", timescale=0.5),
            dict(name="loss", format="rate", default=0.1, targetable="y", max=5),
            dict(name="ret", format="probability", default=0.3),
        ],
        transitions={("undx", "j"): "test", ("j", "tx"): "ptx", ("j", "dx"): ">", ("dx", "tx"): "treat", ("tx", "lost"): "loss", ("lost", "undx"): "ret"},
    )


def M12c():
    """M12 plus a chain of function parameters hanging from a program-targeted one: loss -> lossy = 2*loss -> rel = 0.05*lossy (drives lost -> dx)"""
    d = M12()
    d["name"] = "M12c"
    d["pars"] = d["pars"] + [dict(name="lossy", format="number", function="2*loss"), dict(name="rel", format="probability", function="0.05*lossy")]
    d["transitions"] = dict(d["transitions"])
    d["transitions"][("lost", "dx")] = "rel"
    return d


def random_spec(seed):
    """A pseudo-random valid framework within the catalogue's vocabulary: 2-3 ordinary compartments, optional source, sink, one or two
    junctions (plain or residual, possibly chained, listed in random order) and an optional duration group of one or two timed
    compartments; transitions with random unit types. Deterministic in `seed` (own linear congruential generator)."""
    state = [(seed * 2654435761 + 12345) % 2**32]

    def rnd(n):
        state[0] = (state[0] * 1664525 + 1013904223) % 2**32
        return (state[0] >> 8) % n

    def coin(p100=50):
        return rnd(100) < p100

    units = ["probability", "rate", "duration", "number"]
    n_ord = 2 + rnd(2)
    ords = ["c%d" % i for i in range(n_ord)]
    comps = [dict(name=c, default=50 + 25 * i) for i, c in enumerate(ords)]
    pars = []
    trans = {}

    def newpar(fmt, **kw):
        nm = "p%d" % len(pars)
        d = dict(name=nm, format=fmt, default={"probability": 0.3, "rate": 0.4, "duration": 1.5, "number": 7, "proportion": 0.5}[fmt])
        if fmt != "proportion" and coin(30):
            d["timescale"] = [0.5, 2.0, 1.0 / 12][rnd(3)]
        d.update(kw)
        pars.append(d)
        return nm

    # a cycle through the ordinary compartments plus a few random extra edges
    for i, c in enumerate(ords):
        trans[(c, ords[(i + 1) % n_ord])] = newpar(units[rnd(4)])
    for _ in range(rnd(3)):
        a, b = ords[rnd(n_ord)], ords[rnd(n_ord)]
        if a != b and (a, b) not in trans:
            trans[(a, b)] = pars[rnd(len(pars))]["name"] if coin(30) and pars[rnd(len(pars))]["format"] != "proportion" else newpar(units[rnd(4)])
    if coin(60):
        comps.insert(0, dict(name="src", source="y"))
        trans[("src", ords[0])] = newpar("number")
    if coin(60):
        comps.append(dict(name="dead", sink="y"))
        for c in ords[: 1 + rnd(n_ord)]:
            trans[(c, "dead")] = newpar(units[rnd(4)])
    timed = []
    if coin(50):
        timed = ["t0", "t1"][: 1 + rnd(2)]
        dur = dict(name="dur", format="duration", default=[0.5, 0.6, 0.25][rnd(3)], timed="y")
        pars.append(dur)
        for k, t in enumerate(timed):
            comps.append(dict(name=t, default=20 + 10 * k))
            trans[(t, ords[rnd(n_ord)])] = "dur"
        trans[(ords[0], timed[0])] = newpar(["probability", "rate"][rnd(2)])
        if len(timed) == 2:
            trans[(timed[0], timed[1])] = newpar(["probability", "rate"][rnd(2)])
        if coin():
            trans[(timed[-1], ords[-1] if ("dur" != trans.get((timed[-1], ords[-1]))) else ords[0])] = newpar(["probability", "rate", "number"][rnd(3)]) if (timed[-1], ords[-1]) not in trans else trans[(timed[-1], ords[-1])]
    njun = rnd(3)
    juncs = ["j%d" % i for i in range(njun)]
    jcomps = []
    for k, j in enumerate(juncs):
        jcomps.append(dict(name=j, junction="y", setup=True, default=10 + 5 * k) if coin(60) else dict(name=j, junction="y"))
        if k == 0 or coin(40):
            trans[(ords[rnd(n_ord)], j)] = newpar(["probability", "rate"][rnd(2)])
        if k > 0 and (coin(70) or not any(d == j for (s_, d) in trans)):
            trans[(juncs[k - 1], j)] = newpar("proportion")
        targets = [c for c in ords]
        nout = 1 + rnd(2)
        used = set()
        for _ in range(nout):
            d = targets[rnd(len(targets))]
            if d not in used:
                used.add(d)
                trans[(j, d)] = newpar("proportion")
        if coin(40):
            rest = [c for c in ords if c not in used]
            if rest:
                trans[(j, rest[0])] = ">"
    # junctions are listed in random position/order among the compartments
    for jc in jcomps:
        comps.insert(rnd(len(comps) + 1), jc)
    # a junction with no inflow is pointless but valid; one with no outflow is not: guaranteed above
    return dict(name="R%d" % seed, comps=comps, pars=pars, transitions=trans)


CATALOGUE = dict(M1=M1, M2=M2, M4=M4, M5=M5, M5C=M5C, M5F=M5F, M5R=M5R, M6=M6, M6S=M6S, M7=M7, M8=M8, M8J=M8J, M8R=M8R, M8B=M8B, M10=M10, M10F=M10F, M7F=M7F, M12=M12, M12c=M12c)


RANDOM_SEEDS = [3, 4, 5, 6, 7, 9, 12, 14, 21, 22, 23, 29, 31, 35, 37, 42, 47, 51, 55, 58, 59]  # seeds whose framework passes validation (probed once)
for _s in RANDOM_SEEDS:
    CATALOGUE["R%d" % _s] = (lambda _s=_s: random_spec(_s))
