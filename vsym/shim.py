"""
vsym.shim -- stand-ins for numpy / math / sciris / scipy bound into the *imported atomica modules'*
namespaces while a harness runs.

Rules
* allocation always returns dtype=object arrays (class SymArray), so later writes of proxies succeed;
* a function called without any proxy among its arguments takes the concrete fast path: arguments are cast back to
  float arrays and the genuine numpy function runs (its result is converted to an object array again);
* functions that would enter C loops over floats are re-implemented element-wise over proxies with If-terms
  (no path forking) following numpy's documented semantics;
* anything else reached with a proxy argument raises HarnessError (never a silent pass).
"""

import math as _math
import numpy as _np
import z3
from .core import SR, SB, HarnessError, has_sym, is_sym, lift, ite, where, smin, smax, Ctx, _isnan, _isinf


class SymArray(_np.ndarray):
    """object ndarray reproducing numpy's "size-1 array assigned to a scalar slot" rule"""

    # comparisons keep symbolic booleans as objects (numpy's default object loops would call bool() on every element, i.e.
    # fork per element); a symbolic mask is only decided when it is actually used for indexing
    def _cmp(self, o, uf):
        if has_sym(self) or has_sym(o):
            return uf(_np.asarray(self), o if not isinstance(o, _np.ndarray) else _np.asarray(o), dtype=object).view(SymArray)
        return uf(_np.asarray(self), o)

    def __lt__(self, o):
        return self._cmp(o, _np.less)

    def __le__(self, o):
        return self._cmp(o, _np.less_equal)

    def __gt__(self, o):
        return self._cmp(o, _np.greater)

    def __ge__(self, o):
        return self._cmp(o, _np.greater_equal)

    def __eq__(self, o):
        return self._cmp(o, _np.equal)

    def __ne__(self, o):
        return self._cmp(o, _np.not_equal)

    __hash__ = None

    @staticmethod
    def _key(k):
        if isinstance(k, tuple):
            return tuple(SymArray._key(x) for x in k)
        if isinstance(k, _np.ndarray) and k.dtype == object and k.size and all(isinstance(x, (SB, bool, _np.bool_)) for x in k.ravel()):
            return _np.array([bool(x) for x in k.ravel()], dtype=bool).reshape(k.shape)  # decided here (forks per symbolic element)
        return k

    def __getitem__(self, k):
        return _np.ndarray.__getitem__(self, SymArray._key(k))

    def __setitem__(self, k, v):
        k = SymArray._key(k)
        if isinstance(v, _np.ndarray) and v.size == 1 and v.ndim >= 1:
            try:
                tgt = _np.ndarray.__getitem__(self, k)
                if not isinstance(tgt, _np.ndarray) or tgt.ndim == 0:
                    v = v.reshape(-1)[0]
            except Exception:
                pass
        _np.ndarray.__setitem__(self, k, v)

    def __array_wrap__(self, out_arr, context=None, *a):
        # numpy wraps reduction / ufunc results of ndarray subclasses in 0-d arrays where a plain ndarray would give a scalar;
        # a 0-d array stored into an object slot is stored *as the array object* (aliasing): keep numpy's scalar behaviour
        if isinstance(out_arr, _np.ndarray) and out_arr.ndim == 0:
            return out_arr[()]
        return _np.ndarray.__array_wrap__(self, out_arr, context, *a) if isinstance(out_arr, _np.ndarray) else out_arr

    def sum(self, *a, **k):
        r = _np.ndarray.sum(self, *a, **k)
        if isinstance(r, _np.ndarray) and r.ndim == 0:
            return r[()]
        return r

    def _fold(self, f, axis, name):
        if not has_sym(self):
            return getattr(_np.asarray(conc(_np.asarray(self))), name)(axis=axis)
        if axis is not None:
            raise HarnessError("SymArray.%s with axis on symbolic content" % name)
        vals = list(_np.ndarray.ravel(self))
        r = vals[0]
        for v in vals[1:]:
            r = f(r, v)
        return r

    def astype(self, dtype, *a, **k):
        if has_sym(self) and dtype in (float, sfloat, "float", "float64", _np.float64):
            return self.copy()  # proxies stand for floats already
        return _np.ndarray.astype(self, dtype, *a, **k)

    def max(self, axis=None, **k):
        return self._fold(smax, axis, "max")

    def min(self, axis=None, **k):
        return self._fold(smin, axis, "min")


def S(x):
    """View as SymArray if object ndarray (0-d results are returned as scalars, as numpy does for plain arrays)"""
    if isinstance(x, _np.ndarray) and x.ndim == 0:
        return x[()]
    if isinstance(x, _np.ndarray) and x.dtype == object and not isinstance(x, SymArray):
        return x.view(SymArray)
    return x


def obj(a):
    """Concrete array -> object SymArray with python floats inside"""
    a = _np.asarray(a)
    v = _np.empty(a.shape, dtype=object)
    if a.dtype == object:
        v[...] = a
    else:
        flat = v.reshape(-1)
        src = a.reshape(-1)
        for i in range(src.size):
            x = src[i]
            flat[i] = float(x) if isinstance(x, (_np.floating, float)) else (bool(x) if isinstance(x, _np.bool_) else (int(x) if isinstance(x, _np.integer) else x))
    return v.view(SymArray)


def conc(x):
    """object array without proxies -> float/bool array (for the concrete fast path)"""
    if isinstance(x, _np.ndarray) and x.dtype == object:
        flat = x.ravel()
        if flat.size and all(isinstance(v, (bool, _np.bool_)) for v in flat):
            return _np.asarray(x, dtype=bool)
        try:
            return _np.asarray(x, dtype=float)
        except (TypeError, ValueError):
            return _np.asarray(x)
    if isinstance(x, (list, tuple)):
        return type(x)(conc(v) for v in x)
    return x


def _wrap_result(r):
    # float results become object arrays (proxies may be written into them later); integer/bool arrays are index or mask
    # arrays and stay as numpy made them
    if isinstance(r, _np.ndarray) and r.dtype != object and r.dtype.kind == "f":
        if r.ndim == 0:
            return r[()]
        return obj(r)
    if isinstance(r, tuple):
        return tuple(_wrap_result(x) for x in r)
    return r


def _elementwise(f, *arrs):
    arrs = [_np.asarray(a, dtype=object) if not isinstance(a, _np.ndarray) or a.dtype != object else a for a in arrs]
    b = _np.broadcast_arrays(*arrs) if len(arrs) > 1 else arrs
    shape = b[0].shape
    if shape == ():
        return f(*[x[()] for x in b])
    out = _np.empty(shape, dtype=object)
    for idx in _np.ndindex(shape):
        out[idx] = f(*[x[idx] for x in b])
    return out.view(SymArray)


# Uninterpreted exp with the axioms the harnesses list (monotone, positive, exp(0)=1), instantiated per application
EXP = z3.Function("exp", z3.RealSort(), z3.RealSort())
EXP_APPS = []


def sexp(x):
    # During a symbolic exploration exp is *always* the uninterpreted function, also at concrete points: a float value of
    # exp(1.0) is only an approximation of e and would not be congruent with EXP(1) reached along a symbolic route
    if not is_sym(x) and (Ctx.cur is None or isinstance(x, _np.ndarray) or _isinf(x) or _isnan(x)):
        return _math.exp(x) if not isinstance(x, _np.ndarray) else _np.exp(x)
    e = lift(x)
    EXP_APPS.append(e)
    return SR(EXP(e))


def exp_axioms():
    """Instantiated axioms for all exp applications so far (plus the point 0): positivity, exp(0)=1, monotonicity"""
    pts = list(EXP_APPS) + [z3.RealVal(0)]
    ax = [EXP(z3.RealVal(0)) == 1]
    for p in pts:
        ax.append(EXP(p) > 0)
    for i, p in enumerate(pts):
        for q in pts[i + 1 :]:
            ax.append(z3.Implies(p <= q, EXP(p) <= EXP(q)))
            ax.append(z3.Implies(q <= p, EXP(q) <= EXP(p)))
            ax.append(z3.Implies(p < q, EXP(p) < EXP(q)))
            ax.append(z3.Implies(q < p, EXP(q) < EXP(p)))
    for p in pts:
        # true facts about exp used as instantiated axioms: tangent at 0, and the Pade(1,1) bounds
        ax.append(EXP(p) >= 1 + p)
        ax.append(z3.Implies(p <= 0, EXP(p) * (2 - p) >= 2 + p))
        ax.append(z3.Implies(z3.And(p >= 0, p < 2), EXP(p) * (2 - p) <= 2 + p))
    return ax


def sfloor(x):
    if not is_sym(x):
        return _math.floor(x)
    return SR(z3.ToReal(z3.ToInt(lift(x))))


def sceil(x):
    if not is_sym(x):
        return _math.ceil(x)
    e = lift(x)
    return SR(-z3.ToReal(z3.ToInt(-e)))


_PASS_WITH_SYM = {
    "sum",
    "cumsum",
    "dot",
    "reshape",
    "concatenate",
    "vstack",
    "hstack",
    "stack",
    "transpose",
    "squeeze",
    "ravel",
    "atleast_1d",
    "atleast_2d",
    "tile",
    "repeat",
    "broadcast_to",
    "broadcast_arrays",
    "copy",
    "flip",
    "shape",
    "size",
    "ndim",
    "ndindex",
    "expand_dims",
    "take",
    "append",
    "insert",
    "delete",
    "diff",
    "add",
    "subtract",
    "multiply",
    "negative",
    "cumprod",
    "outer",
    "prod",
    "product",
}


SQRT = z3.Function("sqrt", z3.RealSort(), z3.RealSort())


class _BasicLinalg:
    def __init__(self):
        self._real = _np.linalg

    def __getattr__(self, k):
        v = getattr(self._real, k)

        def guarded(*a, **kw):
            if has_sym(a) or has_sym(kw):
                raise HarnessError("unmodelled numpy.linalg.%s with symbolic argument" % k)
            return _wrap_result(v(*[conc(x) for x in a], **{kk: conc(x) for kk, x in kw.items()}))

        return guarded if callable(v) else v

    def norm(self, x, *a, **k):
        if not has_sym(x):
            return self._real.norm(conc(_np.asarray(x)), *a, **k)
        if a or k:
            raise HarnessError("np.linalg.norm with options on symbolic argument")
        ss = 0.0
        for v in _np.asarray(x, dtype=object).ravel():
            ss = ss + v * v
        return SR(SQRT(lift(ss)))  # uninterpreted (only used for penalties / distances, never in an obligation)


class ShimNP:
    """module-like stand-in for numpy"""

    def __init__(self, join_nonfinite_default=False):
        self.calls = {}
        self.linalg = _BasicLinalg()
        # np.divide(..., out=<nan>, where=<symbolic>): fork per element (default) or join into one If-term with the tagged
        # non-finite symbol (for relational claims that compare whole terms and do not care about the finiteness guards)
        self.join_nonfinite_default = join_nonfinite_default

    def _count(self, k):
        self.calls[k] = self.calls.get(k, 0) + 1

    def __getattr__(self, k):
        v = getattr(_np, k)
        if not callable(v) or isinstance(v, type):
            return v

        def guarded(*a, **kw):
            if has_sym(a) or has_sym(kw):
                if k in _PASS_WITH_SYM:
                    self._count(k + "[obj]")
                    return S(v(*a, **kw))
                raise HarnessError("unmodelled numpy call np.%s with symbolic argument" % k)
            self._count(k + "[concrete]")
            return _wrap_result(v(*[conc(x) for x in a], **{kk: conc(x) for kk, x in kw.items()}))

        guarded.__name__ = k
        return guarded

    # ---- allocation
    def array(self, x, *a, **k):
        self._count("array")
        if isinstance(x, _np.ndarray) and x.dtype != object:
            return obj(x)
        r = _np.array(x, dtype=object)
        if r.dtype == object and not has_sym(r):
            # nested lists of floats etc.
            try:
                return obj(_np.array(x, dtype=k.get("dtype", None) if k.get("dtype", None) is not None else None))
            except Exception:
                pass
        return S(r)

    def asarray(self, x, *a, **k):
        if isinstance(x, _np.ndarray):
            return x
        return self.array(x)

    def zeros(self, shape, *a, **k):
        x = _np.empty(shape, dtype=object)
        x.fill(0.0)
        return S(x)

    def ones(self, shape, *a, **k):
        x = _np.empty(shape, dtype=object)
        x.fill(1.0)
        return S(x)

    def full(self, shape, fill_value=None, *a, **k):
        x = _np.empty(shape, dtype=object)
        x.fill(fill_value)
        return S(x)

    def empty(self, shape, *a, **k):
        x = _np.empty(shape, dtype=object)
        x.fill(_math.nan)
        return S(x)

    def zeros_like(self, a, **k):
        return self.zeros(_np.shape(a))

    def ones_like(self, a, **k):
        return self.ones(_np.shape(a))

    def empty_like(self, a, **k):
        return self.empty(_np.shape(a))

    def full_like(self, a, v, **k):
        return self.full(_np.shape(a), v)

    def arange(self, *a, **k):
        return _np.arange(*a, **k)  # index arrays stay concrete

    def isscalar(self, x):
        return is_sym(x) or _np.isscalar(x)

    # ---- predicates
    def isnan(self, a):
        if is_sym(a):
            return False
        if not isinstance(a, _np.ndarray) or a.dtype != object:
            return _np.isnan(a)
        return _np.array([(False if is_sym(v) else bool(v != v)) for v in a.ravel()], dtype=bool).reshape(a.shape)

    def isfinite(self, a):
        if is_sym(a):
            return True
        if not isinstance(a, _np.ndarray) or a.dtype != object:
            return _np.isfinite(a)
        return _np.array([(True if is_sym(v) else bool(_np.isfinite(v))) for v in a.ravel()], dtype=bool).reshape(a.shape)

    def isinf(self, a):
        if is_sym(a):
            return False
        if not isinstance(a, _np.ndarray) or a.dtype != object:
            return _np.isinf(a)
        return _np.array([(False if is_sym(v) else bool(_np.isinf(v))) for v in a.ravel()], dtype=bool).reshape(a.shape)

    def any(self, a, *args, **k):
        a = _np.asarray(a)
        if a.dtype == object:
            if args or k:
                raise HarnessError("np.any with axis on symbolic array")
            r = False
            for v in a.ravel():
                if isinstance(v, SB):
                    r = v if r is False else (r | v)
                elif isinstance(v, SR):
                    r = (v != 0) if r is False else (r | (v != 0))
                elif bool(v):
                    return True
            return r
        return _np.any(a, *args, **k)

    def all(self, a, *args, **k):
        a = _np.asarray(a)
        if a.dtype == object:
            if args or k:
                raise HarnessError("np.all with axis on symbolic array")
            r = True
            for v in a.ravel():
                if isinstance(v, SB):
                    r = v if r is True else (r & v)
                elif isinstance(v, SR):
                    r = (v != 0) if r is True else (r & (v != 0))
                elif not bool(v):
                    return False
            return r
        return _np.all(a, *args, **k)

    def less(self, a, b):
        return self._cmp(a, b, lambda x, y: x < y)

    def greater(self, a, b):
        return self._cmp(a, b, lambda x, y: x > y)

    def less_equal(self, a, b):
        return self._cmp(a, b, lambda x, y: x <= y)

    def greater_equal(self, a, b):
        return self._cmp(a, b, lambda x, y: x >= y)

    def _cmp(self, a, b, f):
        if not has_sym(a) and not has_sym(b):
            return f(conc(a), conc(b))
        return _elementwise(f, a, b)

    def isclose(self, a, b, rtol=1e-05, atol=1e-08, **k):
        if not has_sym(a) and not has_sym(b):
            return _np.isclose(conc(a), conc(b), rtol=rtol, atol=atol, **k)

        def f(x, y):
            d = abs(x - y)
            return d <= atol + rtol * abs(y)

        return _elementwise(f, a, b)

    # ---- arithmetic kernels
    def divide(self, a, b, out=None, where=True):
        self._count("divide")
        a = _np.asarray(a, dtype=object)
        b = _np.asarray(b, dtype=object)
        a, b = _np.broadcast_arrays(a, b)
        res = out if out is not None else self.empty(a.shape)
        w = _np.broadcast_to(_np.asarray(where, dtype=object), a.shape)
        if a.shape == ():
            r0 = res[()] if isinstance(res, _np.ndarray) else res
            wi = w[()]
            if isinstance(wi, SB):
                if isinstance(r0, (float, _np.floating)) and (r0 != r0 or _isinf(r0)):
                    return (a[()] / b[()]) if bool(wi) else r0
                return ite(wi.e, _guarded_div(a[()], b[()], wi.e), r0)
            return (a[()] / b[()]) if bool(wi) else r0
        for idx in _np.ndindex(a.shape):
            wi = w[idx]
            if isinstance(wi, SB):
                cur = res[idx]
                if isinstance(cur, (float, _np.floating)) and (cur != cur or _isinf(cur)) and not self.join_nonfinite_default:
                    # the default is non-finite: cannot be joined into a real-valued If-term, fork instead
                    if bool(wi):
                        res[idx] = a[idx] / b[idx]
                else:
                    res[idx] = ite(wi.e, _guarded_div(a[idx], b[idx], wi.e), cur)
            elif bool(wi):
                res[idx] = a[idx] / b[idx]
        return res

    @staticmethod
    def _into(out, res):
        # numpy's out= argument: the result is written into (and returned as) the caller's array
        if out is None:
            return res
        if isinstance(out, _np.ndarray):
            out[...] = res
            return out
        return res  # a scalar `out` cannot be written: numpy would raise; the harness only needs the value

    def minimum(self, a, b, out=None):
        if not has_sym(a) and not has_sym(b):
            return self._into(out, _wrap_result(_np.minimum(conc(a), conc(b))))
        return self._into(out, _elementwise(smin, a, b))

    def maximum(self, a, b, out=None):
        if not has_sym(a) and not has_sym(b):
            return self._into(out, _wrap_result(_np.maximum(conc(a), conc(b))))
        return self._into(out, _elementwise(smax, a, b))

    def clip(self, a, lo, hi, **k):
        if not has_sym(a) and not has_sym(lo) and not has_sym(hi):
            return _wrap_result(_np.clip(conc(a), conc(lo), conc(hi), **k))

        def f(x, l, h):
            # numpy: minimum(maximum(x, lo), hi); infinite limits are no-ops
            y = x if (l is None or (_isinf(l) and l < 0)) else smax(x, l)
            z = y if (h is None or (_isinf(h) and h > 0)) else smin(y, h)
            return z

        return _elementwise(f, a, lo, hi)

    def abs(self, a):
        if not has_sym(a):
            return _wrap_result(_np.abs(conc(a)))
        return _elementwise(abs, a)

    absolute = abs

    def exp(self, a):
        if not has_sym(a) and Ctx.cur is None:
            return _wrap_result(_np.exp(conc(a)))
        return _elementwise(sexp, a)

    def floor(self, a):
        if not has_sym(a):
            return _wrap_result(_np.floor(conc(a)))
        return _elementwise(sfloor, a)

    def ceil(self, a):
        if not has_sym(a):
            return _wrap_result(_np.ceil(conc(a)))
        return _elementwise(sceil, a)

    def sqrt(self, a):
        if not has_sym(a):
            return _wrap_result(_np.sqrt(conc(a)))
        raise HarnessError("sqrt on symbolic value is not modelled")

    def matmul(self, a, b):
        if not has_sym(a) and not has_sym(b):
            return _wrap_result(_np.matmul(conc(a), conc(b)))
        return S(_np.dot(_np.asarray(a, dtype=object), _np.asarray(b, dtype=object)))

    def interp(self, x, xp, fp, left=None, right=None):
        """numpy.interp semantics (xp concrete increasing; fp may be symbolic; x concrete)"""
        self._count("interp")
        if has_sym(x) or has_sym(xp):
            raise HarnessError("np.interp with symbolic abscissae")
        if not has_sym(fp):
            return _wrap_result(_np.interp(conc(x), conc(xp), conc(fp), left=left, right=right))
        xs = _np.atleast_1d(conc(_np.asarray(x, dtype=object) if isinstance(x, _np.ndarray) else _np.asarray(x, dtype=float)))
        xp = conc(_np.asarray(xp))
        fp = _np.asarray(fp, dtype=object)
        out = _np.empty(xs.shape, dtype=object)
        n = len(xp)
        for i, xv in enumerate(xs):
            if xv < xp[0]:
                out[i] = fp[0] if left is None else left
            elif xv > xp[-1]:
                out[i] = fp[-1] if right is None else right
            else:
                # numpy: find j with xp[j] <= x < xp[j+1]; exact hit returns fp[j]
                j = int(_np.searchsorted(xp, xv, side="right") - 1)
                if j >= n - 1:
                    out[i] = fp[n - 1]
                elif xv == xp[j]:
                    out[i] = fp[j]
                else:
                    slope_num = float(xv - xp[j])
                    slope_den = float(xp[j + 1] - xp[j])
                    # numpy computes slope=(fp[j+1]-fp[j])/(xp[j+1]-xp[j]); res = slope*(x-xp[j]) + fp[j]
                    out[i] = (fp[j + 1] - fp[j]) / slope_den * slope_num + fp[j]
        if _np.ndim(x) == 0:
            return out[0]
        return out.view(SymArray)

    def argsort(self, a, *args, **k):
        if not has_sym(a):
            return _np.argsort(conc(a), *args, **k)
        # comparison sort by decisions (forks); stable
        vals = list(_np.asarray(a, dtype=object).ravel())
        idx = list(range(len(vals)))
        for i in range(1, len(idx)):
            j = i
            while j > 0 and bool(vals[idx[j - 1]] > vals[idx[j]]):
                idx[j - 1], idx[j] = idx[j], idx[j - 1]
                j -= 1
        return _np.array(idx, dtype=int)

    def trapz(self, y, x=None, dx=1.0, **k):
        if not has_sym(y) and not has_sym(x):
            return _np.trapz(conc(_np.asarray(y)), None if x is None else conc(_np.asarray(x)), dx=dx, **k)
        yy = list(_np.asarray(y, dtype=object).ravel())
        xx = None if x is None else list(_np.asarray(x, dtype=object).ravel())
        tot = 0.0
        for i in range(len(yy) - 1):
            w = (xx[i + 1] - xx[i]) if xx is not None else dx
            tot = tot + w * (yy[i] + yy[i + 1]) / 2.0
        return tot

    def argmax(self, a, *args, **k):
        if not has_sym(a):
            return _np.argmax(conc(a), *args, **k)
        if args or k:
            raise HarnessError("np.argmax with axis on symbolic array")
        vals = list(_np.asarray(a, dtype=object).ravel())
        idx = 0
        for i in range(1, len(vals)):
            if bool(vals[i] > vals[idx]):  # first occurrence of the maximum, as numpy
                idx = i
        return idx

    def where(self, c, *args):
        if len(args) == 0:
            if has_sym(c):
                raise HarnessError("np.where(cond) with symbolic condition")
            return _np.where(conc(c))
        a, b = args
        if not has_sym(c):
            if not has_sym(a) and not has_sym(b):
                return _wrap_result(_np.where(conc(c), conc(a), conc(b)))
            return S(_np.where(conc(c), _np.asarray(a, dtype=object), _np.asarray(b, dtype=object)))
        return _elementwise(where, c, a, b)


def _guarded_div(a, b, guard):
    # division under a guard: the divisor is only required non-zero where the guard holds
    from .core import DIV_LOG

    r = a / b
    if DIV_LOG and is_sym(b) and DIV_LOG[-1][1].eq(lift(b)):
        pc, eb = DIV_LOG.pop()
        DIV_LOG.append((pc + [guard], eb))
    return r


class ShimMath:
    def __getattr__(self, k):
        v = getattr(_math, k)
        if not callable(v):
            return v

        def guarded(*a):
            if has_sym(a):
                raise HarnessError("unmodelled math.%s with symbolic argument" % k)
            return v(*a)

        return guarded

    def ceil(self, x):
        if is_sym(x):
            raise HarnessError("math.ceil on a symbolic real used as an array size (use the IEEE harness)")
        return _math.ceil(x)

    def exp(self, x):
        return sexp(x)

    def floor(self, x):
        return sfloor(x)


class ShimSC:
    """sciris stand-in: only what the integration kernels use"""

    def __init__(self, real_sc):
        self._sc = real_sc

    def __getattr__(self, k):
        return getattr(self._sc, k)

    def promotetoarray(self, x, *a, **k):
        if has_sym(x):
            if isinstance(x, _np.ndarray):
                return x.copy() if x.ndim else x.reshape(1).copy()  # the real function copies (np.array)
            if isinstance(x, (list, tuple)):
                r = _np.empty(len(x), dtype=object)
                for i, v in enumerate(x):
                    r[i] = v
                return r.view(SymArray)
            r = _np.empty(1, dtype=object)
            r[0] = x
            return r.view(SymArray)
        r = self._sc.promotetoarray(conc(x), *a, **k)
        return r

    def dcp(self, x, *a, **k):
        import copy

        if has_sym(x):
            return copy.deepcopy(x)
        return self._sc.dcp(x, *a, **k)


class _ShimInterp1dPrevious:
    def __init__(self, t1, v1, fill):
        self.t1 = _np.asarray(conc(_np.asarray(t1)), dtype=float)
        self.v1 = v1
        self.fill = fill

    def __call__(self, t2):
        t2a = _np.atleast_1d(_np.asarray(conc(_np.asarray(t2)), dtype=float))
        out = _np.empty(t2a.shape, dtype=object)
        for i, t in enumerate(t2a):
            if t < self.t1[0]:
                out[i] = self.fill[0]
            elif t > self.t1[-1]:
                out[i] = self.fill[1]
            else:
                out[i] = self.v1[int(_np.searchsorted(self.t1, t, side="right") - 1)]
        return out.view(SymArray)


class _ShimScipyInterpolate:
    def __init__(self, real):
        self._real = real

    def __getattr__(self, k):
        v = getattr(self._real, k)

        def guarded(*a, **kw):
            if has_sym(a) or has_sym(kw):
                raise HarnessError("unmodelled scipy.interpolate.%s with symbolic argument" % k)
            return v(*[conc(x) for x in a], **{kk: conc(x) for kk, x in kw.items()})

        return guarded if callable(v) and not isinstance(v, type) else v

    def interp1d(self, t1, v1, kind="linear", copy=True, assume_sorted=False, bounds_error=None, fill_value=_np.nan, **kw):
        if not has_sym(v1) and not has_sym(fill_value):
            f = self._real.interp1d(conc(_np.asarray(t1)), conc(_np.asarray(v1)), kind=kind, copy=copy, assume_sorted=assume_sorted, bounds_error=bounds_error, fill_value=conc(fill_value) if not isinstance(fill_value, tuple) else tuple(float(x) for x in fill_value), **kw)
            return lambda t2: obj(f(conc(_np.asarray(t2))))
        if kind != "previous" or bounds_error is not False or not isinstance(fill_value, tuple) or has_sym(t1):
            raise HarnessError("scipy.interpolate.interp1d: only kind='previous' with tuple fill is modelled symbolically")
        return _ShimInterp1dPrevious(t1, v1, fill_value)


class ShimScipy:
    def __init__(self):
        import scipy
        import scipy.interpolate
        import scipy.optimize

        self._real = scipy
        self.interpolate = _ShimScipyInterpolate(scipy.interpolate)

    def __getattr__(self, k):
        return getattr(self._real, k)


class sfloat(float):
    """float stand-in bound to the name `float` in the analysed modules: identity on proxies (e.g. TimeSeries.insert calls
    float(v)), the builtin on everything else; still a type, so `dtype=float` and isinstance checks keep working"""

    def __new__(cls, x=0.0):
        if is_sym(x):
            return x
        if isinstance(x, _np.ndarray) and x.dtype == object and x.size == 1 and is_sym(x.reshape(-1)[0]):
            return x.reshape(-1)[0]
        return float(x)


def patches_for(*modules, join_nonfinite_default=False):
    """Standard shim bindings for the given imported atomica modules (whatever of np/math/sc/scipy/exp they bind)"""
    out = []
    snp = ShimNP(join_nonfinite_default=join_nonfinite_default)
    for m in modules:
        d = m.__dict__
        if "np" in d:
            out.append((d, "np", snp))
        if "math" in d:
            out.append((d, "math", ShimMath()))
        if "sc" in d:
            out.append((d, "sc", ShimSC(d["sc"])))
        if "scipy" in d:
            out.append((d, "scipy", ShimScipy()))
        if "exp" in d:
            out.append((d, "exp", snp.exp))
        if "array" in d and d["array"] is _np.array:
            out.append((d, "array", snp.array))
        if m.__name__ in ("atomica.utils", "atomica.model"):
            out.append((d, "float", sfloat))
    return out


class Installed:
    """Context manager replacing globals in the imported atomica modules; restores them afterwards"""

    def __init__(self, patches):
        # patches: list of (namespace-dict-or-object, name, value)
        self.patches = patches
        self.saved = []

    def __enter__(self):
        for ns, name, val in [p[:3] for p in self.patches]:
            if isinstance(ns, dict):
                self.saved.append((ns, name, ns.get(name, _MISSING)))
                ns[name] = val
            else:
                self.saved.append((ns, name, ns.__dict__.get(name, _MISSING) if hasattr(ns, "__dict__") else getattr(ns, name, _MISSING)))
                setattr(ns, name, val)
        return self

    def __exit__(self, *exc):
        for ns, name, old in reversed(self.saved):
            if isinstance(ns, dict):
                if old is _MISSING:
                    ns.pop(name, None)
                else:
                    ns[name] = old
            else:
                if old is _MISSING:
                    try:
                        delattr(ns, name)
                    except Exception:
                        pass
                else:
                    setattr(ns, name, old)
        self.saved = []
        return False


_MISSING = object()
