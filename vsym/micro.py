"""
vsym.micro -- hand-wired micro-graphs built from the *real* integration classes of atomica.model
(Compartment, TimedCompartment, JunctionCompartment, ..., Parameter, Link.create) plus a stub Model whose
real methods update_links / update_comps / update_pars / flush_junctions are then executed.
"""

import math
import numpy as np
from .shim import ShimNP, ShimMath, ShimSC, obj, SymArray


class StubPop:
    """Carrier for the attributes of atomica.model.Population that the integration kernels touch"""

    def __init__(self, name="pop"):
        self.name = name
        self.label = name
        self.type = "default"
        self.comps = []
        self.characs = []
        self.links = []
        self.pars = []
        self.comp_lookup = {}
        self.charac_lookup = {}
        self.par_lookup = {}
        self.link_lookup = {}
        self.popsize_cache_time = None
        self.popsize_cache_val = None

    def add_comp(self, c):
        self.comps.append(c)
        self.comp_lookup[c.name] = c
        return c

    def add_par(self, p):
        self.pars.append(p)
        self.par_lookup[p.name] = p
        return p

    def get_comp(self, name):
        return self.comp_lookup[name]


def patches(am):
    """Shim bindings for atomica.model (np, math, sc)"""
    from .shim import sfloat

    return [(am.__dict__, "np", ShimNP()), (am.__dict__, "math", ShimMath()), (am.__dict__, "sc", ShimSC(am.sc)), (am.__dict__, "float", sfloat)]


_MERGE_METHODS = ["resolve_outflows", "update", "balance", "initial_flush"]


class merge_points:
    """
    Context manager: wrap the integration kernels of atomica.model as merge points and outline the per-parameter loop of
    Model.update_links (regenerated from the current source). Everything is restored on exit.
    """

    def __init__(self, am, symbolic=True, outline_links=True, outline_pars=False):
        self.am = am
        self.symbolic = symbolic
        self.saved = []
        self.outline_links = outline_links
        self.outline_pars = outline_pars

    def __enter__(self):
        if not self.symbolic:
            return self
        from .core import merged
        from .outline import outlined

        am = self.am
        for cls in [am.Compartment, am.JunctionCompartment, am.ResidualJunctionCompartment, am.SourceCompartment, am.SinkCompartment, am.TimedCompartment]:
            for meth in _MERGE_METHODS:
                if meth in cls.__dict__:
                    f = cls.__dict__[meth]
                    self.saved.append((cls, meth, f))
                    setattr(cls, meth, merged(f, name="%s.%s" % (cls.__name__, meth)))
        for cls, meth in [(am.Parameter, "update"), (am.Parameter, "constrain"), (am.Characteristic, "update")]:
            f = cls.__dict__[meth]
            self.saved.append((cls, meth, f))
            setattr(cls, meth, merged(f, name="%s.%s" % (cls.__name__, meth)))
        if self.outline_links:
            f = am.Model.__dict__["update_links"]
            self.saved.append((am.Model, "update_links", f))
            am.Model.update_links = outlined(f, am.__dict__, which={0}, label="Model.update_links")
        if self.outline_pars:
            f = am.Model.__dict__["update_pars"]
            self.saved.append((am.Model, "update_pars", f))
            # top-level loops of update_pars: [0] characteristics, [1] dynamic parameters (per-name body: function evaluation,
            # program overwrite, population aggregation, constrain)
            am.Model.update_pars = outlined(f, am.__dict__, which={1}, label="Model.update_pars")
        return self

    def __exit__(self, *exc):
        for cls, meth, f in reversed(self.saved):
            setattr(cls, meth, f)
        self.saved = []
        self.am.__dict__.pop("__merged", None)
        return False


def arr(env, shape, fill=math.nan):
    """Array of the right kind for the environment (object SymArray when symbolic, float array when concrete)"""
    if env.symbolic:
        a = np.empty(shape, dtype=object)
        a.fill(fill)
        return a.view(SymArray)
    a = np.empty(shape, dtype=float)
    a.fill(fill)
    return a


def topo_junctions(am, pops):
    import networkx as nx

    G = nx.DiGraph()
    for pop in pops:
        for comp in pop.comps:
            if isinstance(comp, am.JunctionCompartment):
                G.add_node(comp)
                for link in comp.outlinks:
                    if isinstance(link.dest, am.JunctionCompartment):
                        G.add_edge(link.source, link.dest)
    return list(nx.dag.topological_sort(G))


def new_model(am, pops, dt, tvec, junction_order=None):
    """A Model instance (no __init__) carrying exactly the attributes read by the integration methods"""
    m = am.Model.__new__(am.Model)
    m.pops = list(pops)
    m.dt = dt
    m.t = tvec
    m._t_index = 0
    m.programs_active = False
    m.progset = None
    m.program_instructions = None
    m._program_cache = None
    m.framework = None
    m.interactions = {}
    m._pop_ids = {p.name: i for i, p in enumerate(pops)}
    vbp = {}
    for pop in pops:
        for var in pop.comps + pop.characs + pop.pars + pop.links:
            vbp.setdefault(var.name, []).append(var)
    m._vars_by_pop = vbp
    m._exec_order = dict(
        transition_pars=[p for pop in pops for p in pop.pars if p.links and p.units != "proportion"],
        junctions=junction_order if junction_order is not None else topo_junctions(am, pops),
        characs=[],
        dynamic_pars=[],
        all_pars=[],
    )
    return m


def alloc(env, am, pops, T=2):
    """Allocate value arrays (all NaN) for every variable of the micro-graph; timed rows must be set by the caller first"""
    tvec = np.arange(T, dtype=float)
    for pop in pops:
        for c in pop.comps:
            c.t = tvec
            if isinstance(c, am.TimedCompartment):
                if c._vals is None:
                    raise ValueError("set TimedCompartment rows first")
            else:
                c.vals = arr(env, (T,))
                if isinstance(c, (am.JunctionCompartment, am.SourceCompartment)):
                    c.vals.fill(0.0)
        for p in pop.pars:
            p.t = tvec
            if p.vals is None:
                p.vals = arr(env, (T,))
            if env.symbolic:
                # behaviourally equivalent to the initial None (never equal to a time index), but mergeable with the
                # integer written by Parameter.source_popsize on other local paths
                p._source_popsize_cache_time = -1
                p._source_popsize_cache_val = 0.0
        for l in pop.links:
            l.t = tvec
            if isinstance(l, am.TimedLink):
                if isinstance(l.source, am.TimedCompartment):
                    l._vals = arr(env, l.source._vals.shape)
                elif l._vals is None:
                    raise ValueError("set TimedLink rows out of a junction first")
            else:
                l.vals = arr(env, (T,))
    return tvec


def heap_of(pops):
    h = []
    for pop in pops:
        h += pop.comps + pop.pars + pop.links + pop.characs
    return h
