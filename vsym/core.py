"""
vsym.core -- a small symbolic executor for numerical Python code.

The real (unmodified) functions of /repo/atomica are *executed* on proxy objects that wrap
z3 terms.  Arithmetic builds terms; a branch on a symbolic condition becomes a decision of
the path manager (depth-first exploration by re-execution with a decision schedule, in the
style of CrossHair).  Designated calls are "merge points": the call is explored locally over
all of its paths and the post-states are joined into If-terms, so that the caller continues on
a single path.

Exceptions used for path steering derive from BaseException so that `except Exception` clauses
in the code under analysis cannot swallow them.
"""

import z3
import time
import math
import sys
import dis
from fractions import Fraction
import numpy as np


class HarnessError(BaseException):
    """The harness or an environment stub cannot represent what the code did (never a pass, never a violation)"""

    pass


class Abort(BaseException):
    """Current path is infeasible / abandoned"""

    pass


# --------------------------------------------------------------------------------------
# Context / path manager
# --------------------------------------------------------------------------------------


class Ctx:
    cur = None

    def __init__(self, timeout_ms=60000, seed=0, feasibility=True):
        self.solver = z3.Solver()
        self.solver.set("timeout", int(timeout_ms))
        try:
            self.solver.set("random_seed", int(seed) % (2**31))
        except Exception:
            pass
        self.timeout_ms = timeout_ms
        self.trace = []  # decisions taken on this path: (bool, done)
        self.schedule = []  # forced prefix
        self.queries = 0
        self.solver_time = 0.0
        self.pc = []  # path condition (outside merges)
        self.in_merge = False
        self.local_pc = None
        self.heap = None  # list of objects whose numeric attributes form the mergeable heap
        self.merge_exceptions = ()  # names of exception classes collected as symbolic raise conditions at merge points
        self.raise_conds = []  # (function name, exception name, condition)
        self.assumptions = []  # (label, expr)
        self.inputs = {}  # name -> z3 const (symbolic inputs, used to print models)
        self.obligations = []  # Obligation records of this path
        self.feasibility = feasibility
        self.merge_calls = 0
        self.merge_local_paths = 0
        self.fresh = 0
        self.nonfinite = []  # (guard, value): conditions under which a NaN/inf would have been stored (finiteness obligations)

    # -- solver access
    def check(self, *extra):
        t = time.time()
        self.queries += 1
        r = self.solver.check(*extra)
        self.solver_time += time.time() - t
        return r

    def _add(self, e):
        if self.in_merge:
            self.local_pc.append(e)
        else:
            self.solver.add(e)
            self.pc.append(e)

    def assume(self, expr, label=None):
        """Add an assumption (must be placed before the code it constrains)"""
        e = expr.e if isinstance(expr, SB) else expr
        if self.in_merge:
            raise HarnessError("assume inside merge point")
        self.solver.add(e)
        self.assumptions.append((label or str(e)[:120], e))

    def decide(self, expr):
        """Return a python bool for a symbolic condition, following the schedule then exploring"""
        i = len(self.trace)
        if i < len(self.schedule):
            d, done = self.schedule[i]
            self.trace.append((d, done))
            self._add(expr if d else z3.Not(expr))
            return d
        if self.in_merge or not self.feasibility:
            # No feasibility checks inside merge points: a dead side only contributes an If arm with an unsatisfiable guard
            self.trace.append((True, False))
            self._add(expr)
            return True
        rt = self.check(expr)
        rf = self.check(z3.Not(expr))
        can_t = rt != z3.unsat  # unknown is treated as feasible (sound: it only adds paths)
        can_f = rf != z3.unsat
        if can_t and can_f:
            self.trace.append((True, False))
            self._add(expr)
            return True
        elif can_t:
            self.trace.append((True, True))
            return True
        elif can_f:
            self.trace.append((False, True))
            return False
        else:
            raise Abort("infeasible path")

    def sym(self, name, lo=None, hi=None, strict_lo=False, strict_hi=False):
        """New symbolic real input, optionally constrained to a range (recorded as assumption)"""
        v = z3.Real(name)
        self.inputs[name] = v
        if lo is not None:
            self.solver.add(v > lift(lo) if strict_lo else v >= lift(lo))
        if hi is not None:
            self.solver.add(v < lift(hi) if strict_hi else v <= lift(hi))
        return SR(v)

    def fresh_real(self, prefix="cut"):
        self.fresh += 1
        v = z3.Real("%s!%d" % (prefix, self.fresh))
        return v

    # -- obligations
    def prove(self, name, claim, meta=None, timeout_ms=None):
        """Obligation: `claim` must hold on this path for all values. Returns the Obligation record"""
        c = claim.e if isinstance(claim, SB) else (z3.BoolVal(bool(claim)) if isinstance(claim, (bool, np.bool_)) else claim)
        neg = z3.Not(c)
        simp = z3.simplify(neg)
        ob = Obligation(name, meta)
        ob.size = _term_size(simp)
        ob.nontrivial = not (z3.is_false(simp) or z3.is_true(simp))
        ob.ast_hash = simp.hash()
        t = time.time()
        if z3.is_false(simp):
            ob.status = "unsat"
        else:
            status, model, reason, how = self.solve(neg, timeout_ms or self.timeout_ms)
            ob.status = status
            ob.model = model
            ob.reason = reason
            ob.meta = dict(ob.meta, solver=how)
        ob.time = time.time() - t
        ob.text = _short(c)
        self.obligations.append(ob)
        return ob

    def reachable(self, name, cond=None, meta=None):
        """Vacuity guard: the current path condition (and `cond`) must be satisfiable; returns a witness model"""
        c = [] if cond is None else [cond.e if isinstance(cond, SB) else cond]
        ob = Obligation(name, meta)
        ob.kind = "reach"
        t = time.time()
        status, model, reason, how = self.solve(c[0] if c else z3.BoolVal(True), self.timeout_ms)
        ob.time = time.time() - t
        ob.status = status
        ob.nontrivial = True
        ob.text = "reachable: " + (_short(c[0]) if c else "path")
        ob.ast_hash = hash(name)
        ob.model = model
        ob.reason = reason
        self.obligations.append(ob)
        return ob

    def solve(self, neg, timeout_ms):
        """
        Decide satisfiability of (path condition and neg). Staged: (1) the incremental solver with a short cap (cheap for the
        many easy queries); (2) a fresh non-incremental z3 solver (uses the nlsat-based strategy, much stronger on nonlinear
        real arithmetic); (3) a portfolio of the installed solver binaries on the SMT-LIB2 dump. `unknown` only if all fail.
        """
        self.queries += 1
        t = time.time()
        try:
            self.solver.set("timeout", int(min(2000, timeout_ms)))
            r = self.solver.check(neg)
            if r == z3.sat:
                return "sat", self.model_dict(), None, "z3-incremental"
            if r == z3.unsat:
                return "unsat", None, None, "z3-incremental"
            # (1b) nonlinear queries are very sensitive to the search order: a few re-seeded incremental-core attempts with
            # short caps decide most of what the first attempt missed
            assertions = list(self.solver.assertions())
            for k in range(1, 7):
                s1 = z3.Solver()
                s1.set("timeout", int(min(1500 * (1 + k // 3), timeout_ms)))
                s1.set("random_seed", 7919 * k)
                try:
                    s1.set("smt.random_seed", 7919 * k)
                except Exception:
                    pass
                s1.push()
                s1.add(assertions)
                s1.add(neg)
                r = s1.check()
                if r == z3.sat:
                    return "sat", self.model_dict(s1.model()), None, "z3-incremental-reseeded"
                if r == z3.unsat:
                    return "unsat", None, None, "z3-incremental-reseeded"
            s2 = z3.Solver()
            s2.set("timeout", int(timeout_ms))
            s2.add(assertions)
            s2.add(neg)
            r = s2.check()
            if r == z3.sat:
                return "sat", self.model_dict(s2.model()), None, "z3-fresh"
            if r == z3.unsat:
                return "unsat", None, None, "z3-fresh"
            reason = s2.reason_unknown()
            st, model, how = portfolio(s2.to_smt2(), list(self.inputs), timeout_ms)
            if st in ("sat", "unsat"):
                return st, model, None, how
            return "unknown", None, reason, "all"
        finally:
            self.solver.set("timeout", int(self.timeout_ms))
            self.solver_time += time.time() - t

    def model_dict(self, m=None):
        m = m or self.solver.model()
        out = {}
        for k, v in self.inputs.items():
            val = m.eval(v, model_completion=True)
            out[k] = _val_to_str(val)
        return out


def portfolio(smt2, input_names, timeout_ms):
    """Run the installed solver binaries on an SMT-LIB2 problem; first definite answer wins"""
    import subprocess, tempfile, os, re

    d = tempfile.mkdtemp(prefix="vsymq_")
    path = os.path.join(d, "q.smt2")
    body = smt2.replace("(check-sat)", "")
    with open(path, "w") as f:
        f.write("(set-option :produce-models true)\n(set-logic ALL)\n" + body + "\n(check-sat)\n(get-model)\n")
    secs = max(1, int(timeout_ms / 1000))
    cmds = [("z3-4.8.12", ["/usr/bin/z3", "-T:%d" % secs, path]), ("cvc5-1.0.3", ["cvc5", "--tlimit=%d" % (secs * 1000), "--nl-ext-tplanes", path])]
    procs = []
    try:
        for nm, cmd in cmds:
            try:
                procs.append((nm, subprocess.Popen(cmd, stdout=subprocess.PIPE, stderr=subprocess.DEVNULL, text=True)))
            except OSError:
                pass
        t0 = time.time()
        done = set()
        while time.time() - t0 < secs + 5 and len(done) < len(procs):
            for nm, p in procs:
                if nm in done or p.poll() is None:
                    continue
                done.add(nm)
                out = p.stdout.read()
                first = out.strip().splitlines()[0].strip() if out.strip() else ""
                if "(error" in out and first not in ("sat", "unsat"):
                    continue
                if first == "unsat":
                    return "unsat", None, nm
                if first == "sat":
                    model = {}
                    for k in input_names:
                        m = re.search(r"\(define-fun %s \(\) Real\s+(.*?)\)\s*(?=\(define-fun|\)\s*$)" % re.escape(k), out, re.S)
                        v = _parse_smt_real(m.group(1)) if m else None
                        if v is None:
                            model = None
                            break
                        model[k] = v
                    if model is not None:
                        return "sat", model, nm
            time.sleep(0.05)
        return "unknown", None, "portfolio"
    finally:
        for nm, p in procs:
            if p.poll() is None:
                p.kill()
        import shutil

        shutil.rmtree(d, ignore_errors=True)


def _parse_smt_real(txt):
    txt = txt.strip()
    toks = txt.replace("(", " ( ").replace(")", " ) ").split()

    def parse(i):
        if toks[i] == "(":
            op = toks[i + 1]
            args = []
            i += 2
            while toks[i] != ")":
                v, i = parse(i)
                args.append(v)
            if op == "-" and len(args) == 1:
                return -args[0], i + 1
            if op == "-" and len(args) == 2:
                return args[0] - args[1], i + 1
            if op == "/":
                return args[0] / args[1], i + 1
            if op == "+":
                return sum(args), i + 1
            if op == "*":
                r = Fraction(1)
                for a in args:
                    r *= a
                return r, i + 1
            raise ValueError(op)
        return Fraction(toks[i]), i + 1

    try:
        v, _ = parse(0)
        return "%d/%d" % (v.numerator, v.denominator)
    except Exception:
        return None


def _val_to_str(val):
    if z3.is_rational_value(val):
        return "%s/%s" % (val.numerator_as_long(), val.denominator_as_long())
    if z3.is_algebraic_value(val):
        a = val.approx(30)
        return "%s/%s" % (a.numerator_as_long(), a.denominator_as_long())
    if z3.is_true(val):
        return "1/1"
    if z3.is_false(val):
        return "0/1"
    if z3.is_int_value(val):
        return "%s/1" % val.as_long()
    return str(val)


def model_float(d, name):
    return float(Fraction(d[name]))


def model_fraction(d, name):
    return Fraction(d[name])


def _term_size(e, cap=20000):
    seen = set()
    stack = [e]
    n = 0
    while stack and n < cap:
        x = stack.pop()
        i = x.get_id()
        if i in seen:
            continue
        seen.add(i)
        n += 1
        stack.extend(x.children())
    return n


def _short(e, n=300):
    try:
        s = e.sexpr() if z3.is_expr(e) else str(e)  # C-level printer; the python pretty printer is very slow on big terms
    except Exception:
        s = str(e)
    s = " ".join(s.split())
    return s if len(s) <= n else s[:n] + "..."


class Obligation:
    def __init__(self, name, meta=None):
        self.name = name
        self.meta = meta or {}
        self.kind = "prove"
        self.status = None
        self.model = None
        self.time = 0.0
        self.size = 0
        self.nontrivial = False
        self.ast_hash = 0
        self.text = ""
        self.reason = None

    def as_dict(self):
        d = dict(name=self.name, kind=self.kind, status=self.status, time=round(self.time, 4), size=self.size, text=self.text)
        if self.meta:
            d["meta"] = self.meta
        if self.model is not None:
            d["model"] = self.model
        if self.reason:
            d["reason"] = self.reason
        return d


def explore(fn, timeout_ms=60000, seed=0, feasibility=True, max_paths=100000, setup=None):
    """
    Run fn(ctx) over all feasible paths.

    :return: dict(paths, queries, solver_time, obligations[list of Obligation], results[list], aborted)
    """
    schedule = []
    npaths = 0
    tot_q = 0
    tot_t = 0.0
    obligations = []
    results = []
    aborted = 0
    mc = mlp = 0
    assumptions = None
    while True:
        ctx = Ctx(timeout_ms=timeout_ms, seed=seed, feasibility=feasibility)
        ctx.schedule = list(schedule)
        Ctx.cur = ctx
        try:
            if setup:
                setup(ctx)
            r = fn(ctx)
            results.append(r)
        except Abort:
            aborted += 1
        finally:
            Ctx.cur = None
        npaths += 1
        tot_q += ctx.queries
        tot_t += ctx.solver_time
        mc += ctx.merge_calls
        mlp += ctx.merge_local_paths
        for ob in ctx.obligations:
            ob.meta = dict(ob.meta, path=npaths - 1)
        obligations += ctx.obligations
        if assumptions is None:
            assumptions = [a[0] for a in ctx.assumptions]
        tr = ctx.trace
        while tr and tr[-1][1]:
            tr.pop()
        if not tr:
            break
        schedule = list(tr[:-1]) + [(not tr[-1][0], True)]
        if npaths >= max_paths:
            raise HarnessError("path budget exhausted (%d paths)" % npaths)
    return dict(paths=npaths, queries=tot_q, solver_time=tot_t, obligations=obligations, results=results, aborted=aborted, merge_calls=mc, merge_local_paths=mlp, assumptions=assumptions or [])


# --------------------------------------------------------------------------------------
# Proxies
# --------------------------------------------------------------------------------------


def is_sym(x):
    return isinstance(x, (SR, SB))


def has_sym(x):
    """True if x is or contains a proxy (object arrays / lists / tuples / dict values are searched)"""
    if isinstance(x, (SR, SB)):
        return True
    if isinstance(x, np.ndarray):
        if x.dtype != object:
            return False
        for v in x.ravel():
            if isinstance(v, (SR, SB)) or (isinstance(v, (np.ndarray, list, tuple)) and has_sym(v)):
                return True
        return False
    if isinstance(x, (list, tuple)):
        return any(has_sym(v) for v in x)
    if isinstance(x, dict):
        return any(has_sym(v) for v in x.values())
    return False


def _isnan(o):
    return isinstance(o, (float, np.floating)) and o != o


def _isinf(o):
    return isinstance(o, (float, np.floating)) and (o == math.inf or o == -math.inf)


def lift(x):
    """Python/numpy number or proxy -> z3 real term. Floats are lifted as their exact binary rational"""
    if isinstance(x, np.ndarray):
        if x.size == 1:
            x = x.reshape(-1)[0]
        else:
            raise HarnessError("lift of non-scalar array")
    if isinstance(x, SR):
        return x.e
    if isinstance(x, SB):
        return z3.If(x.e, z3.RealVal(1), z3.RealVal(0))
    if isinstance(x, (bool, np.bool_)):
        return z3.RealVal(1 if x else 0)
    if isinstance(x, (int, np.integer)):
        return z3.RealVal(int(x))
    if isinstance(x, (float, np.floating)):
        xf = float(x)
        if xf != xf or xf in (math.inf, -math.inf):
            raise HarnessError("non-finite float reached a solver term: %r" % xf)
        f = Fraction(xf)
        if f.denominator == 1:
            return z3.RealVal(f.numerator)
        return z3.RealVal(str(f))
    if isinstance(x, Fraction):
        return z3.RealVal(str(x))
    if z3.is_expr(x):
        return x
    raise HarnessError("cannot lift %r" % type(x))


class SB:
    """Symbolic bool"""

    __slots__ = ("e",)

    def __init__(self, e):
        self.e = e

    def __bool__(self):
        e = z3.simplify(self.e)
        if z3.is_true(e):
            return True
        if z3.is_false(e):
            return False
        ctx = Ctx.cur
        if ctx is None:
            raise HarnessError("symbolic branch outside an exploration context")
        return ctx.decide(e)

    @staticmethod
    def _e(o):
        if isinstance(o, SB):
            return o.e
        if isinstance(o, (bool, np.bool_)):
            return z3.BoolVal(bool(o))
        if isinstance(o, SR):
            return o.e != 0
        if isinstance(o, (int, float, np.integer, np.floating)):
            return z3.BoolVal(bool(o))
        raise HarnessError("SB op with %r" % type(o))

    def __and__(self, o):
        return SB(z3.And(self.e, SB._e(o)))

    __rand__ = __and__

    def __or__(self, o):
        return SB(z3.Or(self.e, SB._e(o)))

    __ror__ = __or__

    def __xor__(self, o):
        return SB(z3.Xor(self.e, SB._e(o)))

    __rxor__ = __xor__

    def __invert__(self):
        return SB(z3.Not(self.e))

    def __neg__(self):
        return -self._r()

    def __sub__(self, o):
        return self._r() - o

    def __rsub__(self, o):
        return o - self._r()

    def __eq__(self, o):
        return SB(self.e == SB._e(o))

    def __ne__(self, o):
        return SB(self.e != SB._e(o))

    __hash__ = None

    # arithmetic on booleans (True == 1)
    def _r(self):
        return SR(z3.If(self.e, z3.RealVal(1), z3.RealVal(0)))

    def __add__(self, o):
        return self._r() + o

    __radd__ = __add__

    def __mul__(self, o):
        return self._r() * o

    __rmul__ = __mul__

    def __repr__(self):
        return "SB(%s)" % _short(self.e, 80)

    def __reduce__(self):
        return (_sb_from_key, (_register(self.e),))


_FORMAT_OPS = {"BINARY_OP", "FORMAT_VALUE", "BUILD_STRING", "FORMAT_SIMPLE", "FORMAT_WITH_SPEC"}


class SR:
    """Symbolic real"""

    __slots__ = ("e",)

    def __init__(self, e):
        self.e = e

    # NaN operands poison (numpy semantics), +-inf are rejected except in comparisons
    # IEEE/numpy rules for non-finite operands: NaN poisons; +-inf resolves its sign by a decision on the symbolic operand
    def __add__(s, o):
        if _isnan(o):
            return math.nan
        if _isinf(o):
            return float(o)
        if isinstance(o, np.ndarray):
            return NotImplemented
        return SR(s.e + lift(o))

    def __radd__(s, o):
        if _isnan(o):
            return math.nan
        if _isinf(o):
            return float(o)
        return SR(lift(o) + s.e)

    def __sub__(s, o):
        if _isnan(o):
            return math.nan
        if _isinf(o):
            return -float(o)
        if isinstance(o, np.ndarray):
            return NotImplemented
        return SR(s.e - lift(o))

    def __rsub__(s, o):
        if _isnan(o):
            return math.nan
        if _isinf(o):
            return float(o)
        return SR(lift(o) - s.e)

    def _times_inf(s, o):
        if bool(s > 0):
            return float(o)
        if bool(s < 0):
            return -float(o)
        return math.nan

    def __mul__(s, o):
        if _isnan(o):
            return math.nan
        if _isinf(o):
            return s._times_inf(o)
        if isinstance(o, np.ndarray):
            return NotImplemented
        return SR(s.e * lift(o))

    def __rmul__(s, o):
        if _isnan(o):
            return math.nan
        if _isinf(o):
            return s._times_inf(o)
        return SR(lift(o) * s.e)

    def __truediv__(s, o):
        if _isnan(o):
            return math.nan
        if isinstance(o, np.ndarray):
            return NotImplemented
        if _isinf(o):
            return 0.0
        return _div(s, o)

    def __rtruediv__(s, o):
        if _isnan(o):
            return math.nan
        if _isinf(o):
            # inf / x: sign of x decides; inf / 0.0 is inf in IEEE arithmetic (positive zero)
            if bool(s < 0):
                return -float(o)
            return float(o)
        return _div(o, s)

    # floor division and remainder as Python defines them for floats: a // b = floor(a / b), a % b = a - (a // b) * b
    def __floordiv__(s, o):
        q = _div(s, o)
        return SR(z3.ToReal(z3.ToInt(lift(q))))

    def __rfloordiv__(s, o):
        q = _div(o, s)
        return SR(z3.ToReal(z3.ToInt(lift(q))))

    def __mod__(s, o):
        return s - (s // o) * o

    def __rmod__(s, o):
        return o - (o // s) * s

    def __pow__(s, o):
        if isinstance(o, (int, np.integer)) and 0 <= o <= 8:
            e = z3.RealVal(1)
            for _ in range(int(o)):
                e = e * s.e
            return SR(e)
        if isinstance(o, float) and o == int(o) and 0 <= o <= 8:
            return s.__pow__(int(o))
        raise HarnessError("unmodelled power %r" % (o,))

    def __abs__(s):
        return SR(z3.If(s.e >= 0, s.e, -s.e))

    def __neg__(s):
        return SR(-s.e)

    def __pos__(s):
        return s

    def __float__(s):
        fr = sys._getframe(1)
        op = dis.opname[fr.f_code.co_code[fr.f_lasti]]
        if op in _FORMAT_OPS:
            return 0.0  # string formatting only (logging / error messages carry no semantics)
        raise HarnessError("unmodelled concretisation of a symbolic value via float() at %s:%d (%s)" % (fr.f_code.co_filename, fr.f_lineno, op))

    def __format__(s, spec):
        return "<sym>"

    def __int__(s):
        raise HarnessError("unmodelled concretisation of a symbolic value via int()")

    __index__ = __int__

    def __lt__(s, o):
        if _isnan(o):
            return SB(z3.BoolVal(False))
        if _isinf(o):
            return SB(z3.BoolVal(o > 0))
        if isinstance(o, np.ndarray):
            return NotImplemented
        return SB(s.e < lift(o))

    def __le__(s, o):
        if _isnan(o):
            return SB(z3.BoolVal(False))
        if _isinf(o):
            return SB(z3.BoolVal(o > 0))
        if isinstance(o, np.ndarray):
            return NotImplemented
        return SB(s.e <= lift(o))

    def __gt__(s, o):
        if _isnan(o):
            return SB(z3.BoolVal(False))
        if _isinf(o):
            return SB(z3.BoolVal(o < 0))
        if isinstance(o, np.ndarray):
            return NotImplemented
        return SB(s.e > lift(o))

    def __ge__(s, o):
        if _isnan(o):
            return SB(z3.BoolVal(False))
        if _isinf(o):
            return SB(z3.BoolVal(o < 0))
        if isinstance(o, np.ndarray):
            return NotImplemented
        return SB(s.e >= lift(o))

    def __eq__(s, o):
        if o is None or isinstance(o, str):
            return False
        if _isnan(o) or _isinf(o):
            return SB(z3.BoolVal(False))
        if isinstance(o, np.ndarray):
            return NotImplemented
        return SB(s.e == lift(o))

    def __ne__(s, o):
        if o is None or isinstance(o, str):
            return True
        if _isnan(o) or _isinf(o):
            return SB(z3.BoolVal(True))
        if isinstance(o, np.ndarray):
            return NotImplemented
        return SB(s.e != lift(o))

    def __bool__(s):
        return bool(SB(s.e != 0))

    __hash__ = None

    def __repr__(s):
        return "SR(%s)" % _short(s.e, 80)

    def __reduce__(s):
        return (_sr_from_key, (_register(s.e),))

    def __deepcopy__(s, memo):
        return s  # immutable

    def __copy__(s):
        return s


# Division bookkeeping: every symbolic divisor is recorded so that harnesses can discharge "divisor != 0 on this path"
DIV_LOG = []


def _div(a, b):
    ea = lift(a)
    eb = lift(b)
    if z3.is_rational_value(eb):
        if eb.numerator_as_long() == 0:
            raise HarnessError("division by literal zero reached")
    else:
        ctx = Ctx.cur
        if ctx is not None:
            pc = list(ctx.local_pc) if ctx.in_merge and ctx.local_pc is not None else []
            DIV_LOG.append((pc, eb))
    return SR(ea / eb)


# pickling / copying support: proxies are re-created from a registry so that term identity is preserved
_REG = {}


def _register(e):
    k = e.get_id()
    _REG[k] = e
    return k


def _sr_from_key(k):
    return SR(_REG[k])


def _sb_from_key(k):
    return SB(_REG[k])


def SBdeep(self, memo):
    return self


SB.__deepcopy__ = SBdeep
SB.__copy__ = lambda self: self


def ite(c, a, b, guard_a=None, guard_b=None):
    """If-then-else over proxies / numbers. c is a z3 Bool. guard_a/guard_b: exact conditions under which arm a / b is the
    value (used to record finiteness obligations when an arm is NaN/inf; default c / Not(c))"""
    if _same(a, b):
        return a
    if z3.is_true(c):
        return a
    if z3.is_false(c):
        return b
    if isinstance(a, SB) or isinstance(b, SB) or (isinstance(a, (bool, np.bool_)) and isinstance(b, (bool, np.bool_))):
        return SB(z3.If(c, SB._e(a), SB._e(b)))
    if a is None or b is None:
        raise HarnessError("merge of None and non-None value")
    nf_a = isinstance(a, (float, np.floating)) and (a != a or a in (math.inf, -math.inf))
    nf_b = isinstance(b, (float, np.floating)) and (b != b or b in (math.inf, -math.inf))
    if nf_a or nf_b:
        # A non-finite arm cannot live in a real-valued term: it becomes a tagged fresh variable and its guard is recorded
        # as a *finiteness obligation* (the harness must prove the guard unreachable or assume it away explicitly)
        ctx = Ctx.cur
        if ctx is None:
            raise HarnessError("merge of a finite and a non-finite value (%r, %r) outside a context" % (a, b))
        if nf_a and nf_b:
            return a if (a == b or (a != a and b != b)) else NONFINITE(ctx, c, a, b)
        # one shared symbol per non-finite constant: two runs that reach the same non-finite value build identical terms
        nfv = float(a if nf_a else b)
        fresh = SR(z3.Real("nonfinite!%s" % ("nan" if nfv != nfv else ("+inf" if nfv > 0 else "-inf"))))
        guard = (guard_a if guard_a is not None else c) if nf_a else (guard_b if guard_b is not None else z3.Not(c))
        pc = list(ctx.local_pc) if (ctx.in_merge and ctx.local_pc is not None) else []
        ctx.nonfinite.append((z3.And(*(pc + [guard])) if pc else guard, float(a if nf_a else b)))
        return SR(z3.If(c, fresh.e if nf_a else lift(a), lift(b) if nf_a else fresh.e))
    return SR(z3.If(c, lift(a), lift(b)))


def NONFINITE(ctx, c, a, b):
    raise HarnessError("merge of two different non-finite values (%r, %r)" % (a, b))


def _same(a, b):
    if a is b:
        return True
    if isinstance(a, (SR, SB)) or isinstance(b, (SR, SB)):
        if type(a) is type(b):
            return a.e.eq(b.e)
        return False
    if isinstance(a, np.ndarray) or isinstance(b, np.ndarray):
        if isinstance(a, np.ndarray) and isinstance(b, np.ndarray) and a.shape == b.shape:
            return all(_same(x, y) for x, y in zip(a.ravel(), b.ravel()))
        return False
    try:
        if type(a) in (int, float, bool, np.float64, np.int64, np.bool_) and type(b) in (int, float, bool, np.float64, np.int64, np.bool_):
            if a == b:
                return True
            if a != a and b != b:
                return True
            return False
        return bool(a == b)
    except Exception:
        return False


def where(c, a, b):
    """Proxy-level select: c may be SB / bool"""
    if isinstance(c, SB):
        e = z3.simplify(c.e)
        if z3.is_true(e):
            return a
        if z3.is_false(e):
            return b
        return ite(e, a, b)
    return a if c else b


def _scalar(x):
    if isinstance(x, np.ndarray) and x.size == 1:
        return x.reshape(-1)[0]
    return x


def smin(a, b):
    a, b = _scalar(a), _scalar(b)
    if not is_sym(a) and not is_sym(b):
        return min(a, b)
    return where(_le(a, b), a, b)


def smax(a, b):
    a, b = _scalar(a), _scalar(b)
    if not is_sym(a) and not is_sym(b):
        return max(a, b)
    return where(_le(b, a), a, b)


def _le(a, b):
    if isinstance(a, SR):
        return a <= b
    if isinstance(b, SR):
        return b >= a
    return a <= b


# --------------------------------------------------------------------------------------
# Merge points
# --------------------------------------------------------------------------------------

_SCALARS = (int, float, SR, SB, np.floating, np.integer, bool, np.bool_)


class _DictView:
    """Lets a dict of arrays (e.g. Model.interactions) take part in the mergeable heap like an object's attributes"""

    def __init__(self, d):
        self.__dict__ = d


def _heap_objs(heap):
    out = []
    for obj in heap:
        out.append(obj)
        for k, v in list(getattr(obj, "__dict__", {}).items()):
            if isinstance(v, dict) and v and all(isinstance(x, np.ndarray) for x in v.values()) and all(isinstance(kk, str) for kk in v):
                out.append(_DictView(v))
    return out


def snapshot(heap):
    snap = []
    for obj in heap:
        d = {}
        for k, v in obj.__dict__.items():
            if isinstance(v, np.ndarray):
                d[k] = ("a", v, v.copy())
            elif v is None or isinstance(v, _SCALARS):
                d[k] = ("s", v)
        snap.append(d)
    return snap


def restore(heap, snap):
    for obj, d in zip(heap, snap):
        for k, item in d.items():
            if item[0] == "a":
                arr = obj.__dict__.get(k)
                if arr is item[1] and arr.shape == item[2].shape and arr.dtype == item[2].dtype:
                    arr[...] = item[2]
                else:
                    obj.__dict__[k] = item[2].copy()
            else:
                obj.__dict__[k] = item[1]
        # attributes created during the call that were not in the snapshot (numeric only) are removed
        for k in [k for k, v in obj.__dict__.items() if k not in d and (isinstance(v, np.ndarray) or isinstance(v, _SCALARS))]:
            del obj.__dict__[k]


def _merge_value(pc, new, cur):
    if isinstance(new, np.ndarray) and isinstance(cur, np.ndarray):
        if new.shape != cur.shape:
            raise HarnessError("merge of arrays with different shapes %s %s" % (new.shape, cur.shape))
        out = np.empty(new.shape, dtype=object).view(type(cur) if type(cur) is not np.ndarray else np.ndarray)
        for idx in np.ndindex(new.shape):
            out[idx] = ite(pc, new[idx], cur[idx])
        return out
    if isinstance(new, (list, tuple)) and isinstance(cur, (list, tuple)) and len(new) == len(cur):
        return type(new)(_merge_value(pc, a, b) for a, b in zip(new, cur))
    if isinstance(new, dict) and isinstance(cur, dict) and new.keys() == cur.keys():
        return type(new)((k, _merge_value(pc, new[k], cur[k])) for k in new)
    return ite(pc, new, cur)


MERGE_LOG = None  # debugging aid: set to a list to record (function, outcome path conditions) of every merge


def merged(fn, name=None, heap_from=None):
    """Wrap fn as a merge point (see module docstring). heap_from(*args) optionally supplies the mergeable heap"""
    fname = name or getattr(fn, "__qualname__", str(fn))

    def wrapper(*args, **kw):
        ctx = Ctx.cur
        if ctx is None or ctx.in_merge or (ctx.heap is None and heap_from is None):
            return fn(*args, **kw)
        heap = _heap_objs(heap_from(*args, **kw) if heap_from is not None else ctx.heap)
        snap = snapshot(heap)
        outcomes = []
        raises = []
        saved_trace, saved_sched = ctx.trace, ctx.schedule
        sched = []
        ctx.in_merge = True
        ctx.merge_calls += 1
        try:
            while True:
                restore(heap, snap)
                ctx.trace, ctx.schedule = [], list(sched)
                ctx.local_pc = []
                try:
                    ret = fn(*args, **kw)
                    outcomes.append((z3.And(*ctx.local_pc) if ctx.local_pc else z3.BoolVal(True), snapshot(heap), ret))
                except Abort:
                    pass
                except Exception as ex:
                    if type(ex).__name__ in ctx.merge_exceptions:
                        raises.append((type(ex).__name__, z3.And(*ctx.local_pc) if ctx.local_pc else z3.BoolVal(True)))
                    else:
                        # An undeclared exception on a local path: feasible => crash candidate, handled by the caller
                        pcx = z3.And(*ctx.local_pc) if ctx.local_pc else z3.BoolVal(True)
                        ctx.in_merge = False
                        feas = ctx.check(pcx)
                        ctx.in_merge = True
                        if feas != z3.unsat:
                            ex._vsym_pc = pcx
                            raise
                ctx.merge_local_paths += 1
                tr = ctx.trace
                while tr and tr[-1][1]:
                    tr.pop()
                if not tr:
                    break
                sched = list(tr[:-1]) + [(not tr[-1][0], True)]
                if ctx.merge_local_paths > 2000000:
                    raise HarnessError("merge point %s: local path budget exhausted" % fname)
        finally:
            ctx.in_merge = False
            ctx.trace, ctx.schedule = saved_trace, saved_sched
            ctx.local_pc = None
        if MERGE_LOG is not None:
            MERGE_LOG.append((fname, [str(o[0].sexpr()) for o in outcomes] + [("ret:" + (o[2].e.sexpr() if isinstance(o[2], SR) else repr(type(o[2])))) for o in outcomes]))
        for exname, rc in raises:
            ctx.raise_conds.append((fname, exname, rc))
        if not outcomes:
            raise Abort("no returning local path in %s" % fname)
        if raises:
            # continue only on the non-raising part; the harness inspects ctx.raise_conds
            rc_all = z3.Or(*[rc for _, rc in raises])
            ctx.solver.add(z3.Not(rc_all))
            ctx.pc.append(z3.Not(rc_all))
        if not outcomes:
            raise Abort("no returning local path in %s" % fname)
        pc_last, post, ret = outcomes[-1]
        restore(heap, post)
        forget = set()
        for pc, p, r in reversed(outcomes[:-1]):
            for obj, d in zip(heap, p):
                for k, item in d.items():
                    if item[0] == "a":
                        cur = obj.__dict__.get(k)
                        new = item[2]
                        if not isinstance(cur, np.ndarray):
                            raise HarnessError("merge: attribute %s array on one path only" % k)
                        if cur.shape != new.shape:
                            raise HarnessError("merge: shape mismatch on %s.%s" % (type(obj).__name__, k))
                        if cur.dtype != object or new.dtype != object:
                            if cur.dtype != object and new.dtype != object and np.array_equal(cur, new, equal_nan=True):
                                continue
                            if cur.dtype != object:
                                cur = cur.astype(object)
                                obj.__dict__[k] = cur
                        for idx in np.ndindex(cur.shape):
                            if not _same(new[idx], cur[idx]):
                                cur[idx] = ite(pc, new[idx], cur[idx], guard_a=pc, guard_b=pc_last)
                    else:
                        cur = obj.__dict__.get(k)
                        if k not in obj.__dict__:
                            raise HarnessError("merge: attribute %s set on one path only" % k)
                        if not _same(item[1], cur):
                            if k.endswith("_cache_time") or k.endswith("_cache_val"):
                                # memoisation caches on which the local paths disagree are dropped (key -1 never matches a time
                                # index): the next call recomputes the memoised value instead of branching on a symbolic cache key
                                forget.add((id(obj), k[: k.rindex("_cache_") + 7]))
                                continue
                            obj.__dict__[k] = ite(pc, item[1], cur, guard_a=pc, guard_b=pc_last)
            if not _same(r, ret):
                ret = _merge_value(pc, r, ret)
        if MERGE_LOG is not None:
            ch = []
            for obj, d0, d1 in zip(heap, snap, snapshot(heap)):
                for k, it in d1.items():
                    if it[0] == "a" and k in d0 and d0[k][0] == "a" and d0[k][2].shape == it[2].shape:
                        for idx in np.ndindex(it[2].shape):
                            if not _same(d0[k][2][idx], it[2][idx]):
                                v = it[2][idx]
                                ch.append((type(obj).__name__, getattr(obj, "name", ""), k, idx, v.e.sexpr() if isinstance(v, (SR, SB)) else repr(v)))
                    elif it[0] == "s" and (k not in d0 or not _same(d0[k][1], it[1])):
                        v = it[1]
                        ch.append((type(obj).__name__, getattr(obj, "name", ""), k, None, v.e.sexpr() if isinstance(v, (SR, SB)) else repr(v)))
            MERGE_LOG.append(("  changes:" + fname, ch))
        for oid, prefix in forget:
            for obj in heap:
                if id(obj) == oid:
                    obj.__dict__[prefix + "time"] = -1
                    obj.__dict__[prefix + "val"] = 0.0
        return ret

    wrapper.__wrapped__ = fn
    wrapper.__name__ = getattr(fn, "__name__", "merged")
    wrapper.__qualname__ = fname
    return wrapper
