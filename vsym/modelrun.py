"""
vsym.modelrun -- running the real Model.build / Model.process on a concrete structure with symbolic numbers.

The structure (framework, populations, links) is concrete and is built by the real ProjectFramework / ProjectData /
ParameterSet / ProgramSet code; the numbers (databook values, calibration factors, initial stocks, program numbers) are
replaced by proxies via `symbolize_*`.  `session(env)` installs the shims and merge points in every atomica module the
integration touches (no-op for the concrete replay environment).
"""

import math
import copy
import numpy as np
from fractions import Fraction
from contextlib import contextmanager, ExitStack
from . import shim
from .core import merged, HarnessError, has_sym, is_sym, SR
from .micro import merge_points


def modules():
    import atomica.model as am
    import atomica.programs as ap
    import atomica.utils as au
    import atomica.parameters as apar
    import atomica.function_parser as afp

    return am, ap, au, apar, afp


# ---------------------------------------------------------------------------------------------------------------
# exact minimum-norm least squares (contract stub for np.linalg.lstsq when the right-hand side is symbolic)
# ---------------------------------------------------------------------------------------------------------------


def _rref(M):
    M = [row[:] for row in M]
    rows, cols = len(M), len(M[0]) if M else 0
    piv = []
    r = 0
    for c in range(cols):
        p = None
        for i in range(r, rows):
            if M[i][c] != 0:
                p = i
                break
        if p is None:
            continue
        M[r], M[p] = M[p], M[r]
        pv = M[r][c]
        M[r] = [x / pv for x in M[r]]
        for i in range(rows):
            if i != r and M[i][c] != 0:
                f = M[i][c]
                M[i] = [a - f * b for a, b in zip(M[i], M[r])]
        piv.append(c)
        r += 1
        if r == rows:
            break
    return M, piv


def _matmul(A, B):
    return [[sum(A[i][k] * B[k][j] for k in range(len(B))) for j in range(len(B[0]))] for i in range(len(A))]


def _T(A):
    return [list(r) for r in zip(*A)] if A else []


def _inv(A):
    n = len(A)
    M = [list(A[i]) + [Fraction(int(i == j)) for j in range(n)] for i in range(n)]
    R, piv = _rref(M)
    if piv[:n] != list(range(n)):
        raise HarnessError("singular matrix in exact pseudo-inverse")
    return [row[n:] for row in R]


def pinv_exact(A):
    """Moore-Penrose pseudo-inverse of a small rational matrix via rank factorisation A = B C"""
    A = [[Fraction(x).limit_denominator(10**9) if not isinstance(x, Fraction) else x for x in row] for row in A]
    m, n = len(A), len(A[0])
    R, piv = _rref(A)
    r = len(piv)
    if r == 0:
        return [[Fraction(0)] * m for _ in range(n)]
    B = [[A[i][c] for c in piv] for i in range(m)]
    C = [R[i] for i in range(r)]
    Ct, Bt = _T(C), _T(B)
    return _matmul(_matmul(Ct, _inv(_matmul(C, Ct))), _matmul(_inv(_matmul(Bt, B)), Bt))


class _ShimLinalg(shim._BasicLinalg):
    def __init__(self, real):
        super().__init__()

    def lstsq(self, A, b, rcond=None):
        if not has_sym(b) and not has_sym(A):
            r = self._real.lstsq(shim.conc(np.asarray(A)), shim.conc(np.asarray(b)), rcond=rcond)
            return (shim.obj(r[0]),) + tuple(r[1:])
        if has_sym(A):
            raise HarnessError("lstsq with a symbolic matrix")
        Ac = shim.conc(np.asarray(A))
        P = pinv_exact([[Fraction(float(x)) for x in row] for row in Ac])
        bv = list(np.asarray(b, dtype=object).ravel())
        x = np.empty(len(P), dtype=object)
        for i, row in enumerate(P):
            acc = 0.0
            for c, bj in zip(row, bv):
                if c != 0:
                    acc = acc + (bj * float(c) if c.denominator in (1, 2, 4, 8, 16) else bj * SR(__import__("z3").RealVal(str(c))))
            x[i] = acc
        return (x.view(shim.SymArray), None, len(P), None)


class ShimNPModel(shim.ShimNP):
    def __init__(self):
        super().__init__()
        self.linalg = _ShimLinalg(np.linalg)


# ---------------------------------------------------------------------------------------------------------------
# session: shims + merge points
# ---------------------------------------------------------------------------------------------------------------


@contextmanager
def session(env, merge_init=True, outline_pars=False):
    am, ap, au, apar, afp = modules()
    if not env.symbolic:
        yield None
        return
    snp = ShimNPModel()
    patches = []
    for m in (am, ap, au, apar, afp):
        d = m.__dict__
        if "np" in d:
            patches.append((d, "np", snp))
        if "math" in d:
            patches.append((d, "math", shim.ShimMath()))
        if "sc" in d:
            patches.append((d, "sc", shim.ShimSC(d["sc"])))
        if "scipy" in d:
            patches.append((d, "scipy", shim.ShimScipy()))
        if "exp" in d and m is ap:
            patches.append((d, "exp", snp.exp))
    patches.append((au.__dict__, "float", shim.sfloat))
    patches.append((am.__dict__, "float", shim.sfloat))
    sf = afp.supported_functions
    patches += [(sf, "exp", snp.exp), (sf, "floor", snp.floor)]
    with ExitStack() as st:
        st.enter_context(shim.Installed(patches))
        st.enter_context(merge_points(am, True, outline_pars=outline_pars))
        if merge_init:
            f = am.Population.__dict__["initialize_compartments"]
            w = merged(f, name="Population.initialize_compartments", heap_from=lambda self, *a, **k: self.comps + self.characs + self.pars + self.links)
            st.enter_context(shim.Installed([(am.Population, "initialize_compartments", w)]))
        yield snp


def all_vars(model):
    h = []
    for pop in model.pops:
        h += pop.comps + pop.characs + pop.pars + pop.links
    return h


# ---------------------------------------------------------------------------------------------------------------
# symbolic inputs
# ---------------------------------------------------------------------------------------------------------------

RANGES = {"probability": (0.0, 5.0), "rate": (0.0, 50.0), "duration": (0.02, 50.0), "number": (0.0, 1e6), "proportion": (0.0, 1.0), "fraction": (0.0, 1.0), "n/a": (0.0, 1e6)}


def _rng(units):
    u = (units or "").strip().split()[0].lower() if (units or "").strip() else "n/a"
    return RANGES.get(u, (0.0, 1e6))


def symbolize_ts(env, ts, name, lo, hi):
    """Replace the numbers of a TimeSeries by symbolic reals (same times, same assumption/time-data pattern)"""
    if ts.has_time_data:
        ts.vals = [env.real("%s@%g" % (name, t), lo, hi) for t in ts.t]
    elif ts.assumption is not None:
        ts.assumption = env.real(name, lo, hi)
    return ts


def symbolize_parset(env, parset, framework, pars=None, comps=True, y_factors=False, skip=()):
    """
    Symbolic databook values for the given parameter names (default: all transition/data parameters except timed durations)
    and, if comps, for the compartment/characteristic initial values. Returns dict name -> value(s) for use in specifications.
    """
    out = {}
    timed = set(framework.pars.index[framework.pars["timed"] == "y"]) if "timed" in framework.pars.columns else set()
    for name, par in parset.pars.items():
        if name in skip or name in timed:
            continue
        is_par = name in framework.pars.index
        if is_par and pars is not None and name not in pars:
            continue
        if not is_par and not comps:
            continue
        for pop, ts in par.ts.items():
            if not ts.has_data:
                continue
            lo, hi = _rng(ts.units) if is_par else (0.0, 1e6)
            if is_par:
                mn = framework.pars.at[name, "minimum value"]
                mx = framework.pars.at[name, "maximum value"]
                # data may lie outside the framework limits: the model clips (C06); keep the generic range
            symbolize_ts(env, ts, "%s|%s" % (name, pop), lo, hi)
            out[(name, pop)] = ts
        if y_factors:
            for pop in list(par.y_factor.keys()):
                par.y_factor[pop] = env.real("yf|%s|%s" % (name, pop), 0.1, 10.0)
            par.meta_y_factor = env.real("myf|%s" % name, 0.1, 10.0)
    # transfers between populations: data parameters per (source, destination) pair
    for tname, tr in getattr(parset, "transfers", {}).items():
        if pars is not None and tname not in pars:
            continue
        for src, par in tr.items():
            for dst, ts in par.ts.items():
                if ts.has_data:
                    lo, hi = _rng(ts.units)
                    symbolize_ts(env, ts, "%s|%s>%s" % (tname, src, dst), lo, hi)
                    out[("%s_%s_to_%s" % (tname, src, dst), src)] = ts
    return out


def symbolic_state(env, model0, vmax=1e6, prefix="x"):
    """An Initialization with an arbitrary non-negative symbolic value for every non-source compartment (rows for timed ones)"""
    am, ap, au, apar, afp = modules()
    values = {}
    for pop in model0.pops:
        for comp in pop.comps:
            if isinstance(comp, am.SourceCompartment):
                continue
            if isinstance(comp, am.JunctionCompartment):
                values[(comp.name, pop.name)] = 0.0
            elif isinstance(comp, am.TimedCompartment):
                n = comp._vals.shape[0]
                values[(comp.name, pop.name)] = env.array([env.real("%s|%s|%s|r%d" % (prefix, comp.name, pop.name, r), 0, vmax) for r in range(n)])
            elif isinstance(comp, am.SinkCompartment):
                values[(comp.name, pop.name)] = env.real("%s|%s|%s" % (prefix, comp.name, pop.name), 0, vmax)
            else:
                values[(comp.name, pop.name)] = env.real("%s|%s|%s" % (prefix, comp.name, pop.name), 0, vmax)
    return apar.Initialization(values=values, year=float(model0.t[0]), dt=model0.dt)


def build_model(env, settings, framework, parset, progset=None, instructions=None):
    """Real Model(...) construction; the mergeable heap is set to all of the model's variables afterwards"""
    am, ap, au, apar, afp = modules()
    m = am.Model(settings, framework, parset, progset, instructions)
    if env.symbolic:
        for var in all_vars(m):
            # arrays created before the shims saw a proxy may still be float arrays: make them writable for proxies
            for k, v in list(var.__dict__.items()):
                if isinstance(v, np.ndarray) and v.dtype != object and v.dtype.kind == "f":
                    var.__dict__[k] = shim.obj(v)
            if isinstance(var, am.Parameter):
                var._source_popsize_cache_time = -1
                var._source_popsize_cache_val = 0.0
        if isinstance(getattr(m, "interactions", None), dict):
            for k, v in list(m.interactions.items()):
                if isinstance(v, np.ndarray) and v.dtype != object:
                    m.interactions[k] = shim.obj(v)
        env.heap(all_vars(m) + [m])  # the model object itself: its interaction weight arrays are numeric state too
    return m


def comp_val(am, comp, ti):
    if isinstance(comp, am.TimedCompartment):
        return comp[ti]
    return comp.vals[ti]


def link_val(am, link, ti):
    if isinstance(link, am.TimedLink):
        return link[ti]
    return link.vals[ti]
