"""
vsym.fp -- float proxies for the places where the property is about rounding itself.

Two modes (the same real code is executed; only the proxy class differs):

* IEEE mode (class SF): terms are z3 Float64 with round-to-nearest-even; math.ceil -> roundToIntegral(RTP), int() -> RTZ,
  round() -> RNE.  Bit-exact; used to find counterexamples (replayed concretely) and for bounded proofs on slices.
* rounding-model mode (class SM): every operation result is the real result times (1+d), |d| <= 2**-53, fresh d per
  operation (sound for normal, non-overflowing doubles, which the stated magnitude bounds guarantee); ceil/round/int are
  the exact integer functions.  Only used to show that a kernel is right: a `sat` here may be an artefact of the
  over-approximation and is handed to IEEE mode / concrete replay, never reported by itself.
"""

import sys
import dis
import math
import z3
from fractions import Fraction
from .core import SB, Ctx, HarnessError

F64 = z3.Float64()
RNE = z3.RNE()
_FORMAT_OPS = {"BINARY_OP", "FORMAT_VALUE", "BUILD_STRING", "FORMAT_SIMPLE", "FORMAT_WITH_SPEC"}


def fv(x):
    return z3.FPVal(float(x), F64)


class SF:
    """IEEE-754 binary64 proxy"""

    __slots__ = ("e",)

    def __init__(self, e):
        self.e = e

    @staticmethod
    def L(o):
        if isinstance(o, SF):
            return o.e
        if isinstance(o, SInt):
            return o.e
        if isinstance(o, (int, float)):
            return fv(o)
        try:
            return fv(float(o))
        except Exception:
            raise HarnessError("cannot lift %r to Float64" % type(o))

    def __add__(s, o):
        return SF(z3.fpAdd(RNE, s.e, SF.L(o)))

    def __radd__(s, o):
        return SF(z3.fpAdd(RNE, SF.L(o), s.e))

    def __sub__(s, o):
        return SF(z3.fpSub(RNE, s.e, SF.L(o)))

    def __rsub__(s, o):
        return SF(z3.fpSub(RNE, SF.L(o), s.e))

    def __mul__(s, o):
        return SF(z3.fpMul(RNE, s.e, SF.L(o)))

    def __rmul__(s, o):
        return SF(z3.fpMul(RNE, SF.L(o), s.e))

    def __truediv__(s, o):
        return SF(z3.fpDiv(RNE, s.e, SF.L(o)))

    def __rtruediv__(s, o):
        return SF(z3.fpDiv(RNE, SF.L(o), s.e))

    def __neg__(s):
        return SF(z3.fpNeg(s.e))

    def __abs__(s):
        return SF(z3.fpAbs(s.e))

    def __lt__(s, o):
        return SB(z3.fpLT(s.e, SF.L(o)))

    def __le__(s, o):
        return SB(z3.fpLEQ(s.e, SF.L(o)))

    def __gt__(s, o):
        return SB(z3.fpGT(s.e, SF.L(o)))

    def __ge__(s, o):
        return SB(z3.fpGEQ(s.e, SF.L(o)))

    def __eq__(s, o):
        return SB(z3.fpEQ(s.e, SF.L(o)))

    def __ne__(s, o):
        return SB(z3.Not(z3.fpEQ(s.e, SF.L(o))))

    __hash__ = None

    def __bool__(s):
        return bool(SB(z3.Not(z3.fpIsZero(s.e))))

    def __round__(s, nd=None):
        if nd is not None:
            raise HarnessError("round(x, ndigits) on a float proxy is not modelled")
        return SInt(z3.fpRoundToIntegral(RNE, s.e))  # Python rounds half to even

    def __ceil__(s):
        return SInt(z3.fpRoundToIntegral(z3.RTP(), s.e))

    def __floor__(s):
        return SInt(z3.fpRoundToIntegral(z3.RTN(), s.e))

    def __trunc__(s):
        return SInt(z3.fpRoundToIntegral(z3.RTZ(), s.e))

    def __float__(s):
        fr = sys._getframe(1)
        op = dis.opname[fr.f_code.co_code[fr.f_lasti]]
        if op in _FORMAT_OPS:
            return 0.0
        raise HarnessError("unmodelled concretisation of a float proxy via float()")

    def __format__(s, spec):
        return "<fp>"

    def __repr__(s):
        return "SF(...)"


class SInt:
    """Integer-valued result of ceil/int/round on a float proxy (kept as an integral Float64 term; exact below 2**53)"""

    __slots__ = ("e",)

    def __init__(self, e):
        self.e = e

    def __add__(s, o):
        return SInt(z3.fpAdd(RNE, s.e, SF.L(o)))

    __radd__ = __add__

    def __sub__(s, o):
        return SInt(z3.fpSub(RNE, s.e, SF.L(o)))

    def __mul__(s, o):
        if isinstance(o, SF):
            return SF(z3.fpMul(RNE, s.e, o.e))
        return SInt(z3.fpMul(RNE, s.e, SF.L(o)))

    def __rmul__(s, o):
        if isinstance(o, SF):
            return SF(z3.fpMul(RNE, o.e, s.e))
        return SInt(z3.fpMul(RNE, SF.L(o), s.e))

    def __lt__(s, o):
        return SB(z3.fpLT(s.e, SF.L(o)))

    def __le__(s, o):
        return SB(z3.fpLEQ(s.e, SF.L(o)))

    def __gt__(s, o):
        return SB(z3.fpGT(s.e, SF.L(o)))

    def __ge__(s, o):
        return SB(z3.fpGEQ(s.e, SF.L(o)))

    def __eq__(s, o):
        return SB(z3.fpEQ(s.e, SF.L(o)))

    def __ne__(s, o):
        return SB(z3.Not(z3.fpEQ(s.e, SF.L(o))))

    __hash__ = None

    def __format__(s, spec):
        return "<int>"

    def __index__(s):
        raise HarnessError("symbolic integer used as an index/size (handled by the harness, not here)")


def f_int(x):
    if isinstance(x, SF):
        return x.__trunc__()
    if isinstance(x, SInt):
        return x
    return int(x)


def f_max(*a):
    if len(a) == 1:
        a = tuple(a[0])
    r = a[0]
    for x in a[1:]:
        if isinstance(r, (SF, SInt)) or isinstance(x, (SF, SInt)):
            c = z3.fpGT(SF.L(x), SF.L(r))
            cls = SInt if (isinstance(r, (SInt, int)) and isinstance(x, (SInt, int))) else SF
            r = cls(z3.If(c, SF.L(x), SF.L(r)))
        else:
            r = max(r, x)
    return r


class FMath:
    def __getattr__(self, k):
        return getattr(math, k)

    def ceil(self, x):
        if isinstance(x, SF):
            return x.__ceil__()
        return math.ceil(x)

    def floor(self, x):
        if isinstance(x, SF):
            return x.__floor__()
        return math.floor(x)


class Grid:
    """What np.linspace(start, stop, num) stands for: its arguments (the harness states the spacing obligations on them)"""

    def __init__(self, start, stop, num):
        self.start, self.stop, self.num = start, stop, num


class FNumpy:
    def __init__(self):
        import numpy as np

        self._np = np

    def __getattr__(self, k):
        return getattr(self._np, k)

    def ceil(self, x):
        if isinstance(x, SF):
            return SF(z3.fpRoundToIntegral(z3.RTP(), x.e))  # np.ceil returns a float
        return self._np.ceil(x)

    def linspace(self, a, b, n):
        return Grid(a, b, n)

    def arange(self, start, stop=None, step=1):
        # numpy: ceil((stop - start)/step) points start + k*step, the quotient evaluated in double precision
        if not any(hasattr(x, "e") for x in (start, stop, step)):
            return self._np.arange(start, stop, step)
        n = self.ceil((stop - start) / step)
        return Grid(start, start + (n - 1) * step, n)


def model_double(model, var):
    """Extract a python float from an FP model value (bit-exact)"""
    v = model.eval(var, model_completion=True)
    import struct

    bv = model.eval(z3.fpToIEEEBV(v), model_completion=True)
    try:
        bits = bv.as_long()
        return struct.unpack(">d", struct.pack(">Q", bits))[0]
    except Exception:
        s = z3.simplify(z3.fpToReal(v))
        return float(Fraction(s.numerator_as_long(), s.denominator_as_long()))


# ---------------------------------------------------------------------------------------------------------------
# rounding-model mode
# ---------------------------------------------------------------------------------------------------------------

U = Fraction(1, 2**53)


class SM:
    """real-valued proxy: each operation result is the exact result times (1+d), |d| <= 2**-53"""

    __slots__ = ("e",)
    counter = [0]
    deltas = []

    def __init__(self, e):
        self.e = e

    @staticmethod
    def L(o):
        if isinstance(o, (SM, SMInt)):
            return o.e
        if isinstance(o, bool):
            return z3.RealVal(int(o))
        if isinstance(o, int):
            return z3.RealVal(o)
        if isinstance(o, float):
            return z3.RealVal(str(Fraction(o)))
        raise HarnessError("cannot lift %r (rounding-model mode)" % type(o))

    @staticmethod
    def rnd(e):
        SM.counter[0] += 1
        d = z3.Real("delta!%d" % SM.counter[0])
        SM.deltas.append(d)
        return SM(e * (1 + d))

    def __add__(s, o):
        return SM.rnd(s.e + SM.L(o))

    def __radd__(s, o):
        return SM.rnd(SM.L(o) + s.e)

    def __sub__(s, o):
        return SM.rnd(s.e - SM.L(o))

    def __rsub__(s, o):
        return SM.rnd(SM.L(o) - s.e)

    def __mul__(s, o):
        return SM.rnd(s.e * SM.L(o))

    def __rmul__(s, o):
        return SM.rnd(SM.L(o) * s.e)

    def __truediv__(s, o):
        return SM.rnd(s.e / SM.L(o))

    def __rtruediv__(s, o):
        return SM.rnd(SM.L(o) / s.e)

    def __neg__(s):
        return SM(-s.e)

    def __lt__(s, o):
        return SB(s.e < SM.L(o))

    def __le__(s, o):
        return SB(s.e <= SM.L(o))

    def __gt__(s, o):
        return SB(s.e > SM.L(o))

    def __ge__(s, o):
        return SB(s.e >= SM.L(o))

    def __eq__(s, o):
        return SB(s.e == SM.L(o))

    def __ne__(s, o):
        return SB(s.e != SM.L(o))

    __hash__ = None

    def __round__(s, nd=None):
        return SMInt.cut("round", lambda k: z3.And(k - s.e <= z3.RealVal("1/2"), s.e - k <= z3.RealVal("1/2")))

    def __ceil__(s):
        return SMInt.cut("ceil", lambda k: z3.And(k >= s.e, k < s.e + 1))

    def __floor__(s):
        return SMInt.cut("floor", lambda k: z3.And(k <= s.e, k > s.e - 1))

    def __trunc__(s):
        return SMInt.cut("trunc", lambda k: z3.If(s.e >= 0, z3.And(k <= s.e, k > s.e - 1), z3.And(k >= s.e, k < s.e + 1)))

    def __float__(s):
        fr = sys._getframe(1)
        op = dis.opname[fr.f_code.co_code[fr.f_lasti]]
        if op in _FORMAT_OPS:
            return 0.0
        raise HarnessError("unmodelled concretisation of a rounding-model proxy via float()")

    def __format__(s, spec):
        return "<rm>"


class SMInt:
    """exact integer (z3 Int cast to Real) produced by ceil/round/int in rounding-model mode"""

    __slots__ = ("e", "i")
    n = [0]
    facts = []

    def __init__(self, i):
        self.i = i
        self.e = z3.ToReal(i)

    @staticmethod
    def cut(kind, fact):
        SMInt.n[0] += 1
        k = z3.Int("%s!%d" % (kind, SMInt.n[0]))
        SMInt.facts.append(fact(z3.ToReal(k)))
        return SMInt(k)

    def __add__(s, o):
        if isinstance(o, int):
            return SMInt(s.i + o)
        return SM.rnd(s.e + SM.L(o))

    __radd__ = __add__

    def __sub__(s, o):
        if isinstance(o, int):
            return SMInt(s.i - o)
        return SM.rnd(s.e - SM.L(o))

    def __mul__(s, o):
        if isinstance(o, int):
            return SMInt(s.i * o)
        return SM.rnd(s.e * SM.L(o))

    def __rmul__(s, o):
        if isinstance(o, int):
            return SMInt(s.i * o)
        return SM.rnd(SM.L(o) * s.e)

    def __lt__(s, o):
        return SB(s.e < SM.L(o))

    def __le__(s, o):
        return SB(s.e <= SM.L(o))

    def __gt__(s, o):
        return SB(s.e > SM.L(o))

    def __ge__(s, o):
        return SB(s.e >= SM.L(o))

    def __eq__(s, o):
        return SB(s.e == SM.L(o))

    def __ne__(s, o):
        return SB(s.e != SM.L(o))

    __hash__ = None

    def __format__(s, spec):
        return "<int>"


def m_int(x):
    if isinstance(x, SM):
        return x.__trunc__()
    if isinstance(x, SMInt):
        return x
    return int(x)


def m_max(*a):
    if len(a) == 1:
        a = tuple(a[0])
    r = a[0]
    for x in a[1:]:
        if isinstance(r, (SM, SMInt)) or isinstance(x, (SM, SMInt)):
            c = SM.L(x) > SM.L(r)
            if isinstance(r, (SMInt, int)) and isinstance(x, (SMInt, int)):
                ri = r.i if isinstance(r, SMInt) else z3.IntVal(r)
                xi = x.i if isinstance(x, SMInt) else z3.IntVal(x)
                r = SMInt(z3.If(c, xi, ri))
            else:
                r = SM(z3.If(c, SM.L(x), SM.L(r)))
        else:
            r = max(r, x)
    return r


class MMath:
    def __getattr__(self, k):
        return getattr(math, k)

    def ceil(self, x):
        if isinstance(x, SM):
            return x.__ceil__()
        return math.ceil(x)


class MNumpy(FNumpy):
    def ceil(self, x):
        if isinstance(x, SM):
            k = x.__ceil__()
            return SM(k.e)  # np.ceil returns a float (exact: integers below 2**53)
        return self._np.ceil(x)


def model_reset():
    SM.counter[0] = 0
    SM.deltas.clear()
    SMInt.n[0] = 0
    SMInt.facts.clear()


def model_constraints():
    """delta bounds and integer-cut facts collected while executing in rounding-model mode"""
    cs = []
    u = z3.RealVal(str(U))
    for d in SM.deltas:
        cs.append(z3.And(d >= -u, d <= u))
    cs += list(SMInt.facts)
    return cs
