"""
vsym.report -- running obligation groups in parallel, known findings, evidence files, exit codes.

A *group* is a function `g(tier, seed) -> dict` executed in its own process (fresh import of /repo's atomica,
its own solver).  It returns plain data:

    name        group name
    functions   list of callables of /repo encoded by the group (qualified name + sha256 of current source is recorded)
    bounds      dict describing the bounds of the group
    stubs       list of strings (environment stubs used)
    assumptions list of strings
    obligations list of obligation dicts (core.Obligation.as_dict())
    witnesses   int: reachability witnesses replayed concretely against the unpatched code (traces validated)
    violations  list of dict(key, what, model, replay=dict(fn=<replay function name>, args=...), reproduced=True)
    errors      list of strings (harness errors / inconclusive queries / non-reproducing counterexamples)
    stats       dict(paths=, queries=, solver_time=, merge_calls=, merge_local_paths=)
"""

import os
import sys
import json
import time
import hashlib
import inspect
import traceback
import multiprocessing as mp
import tempfile
import shutil

ROOT = os.path.dirname(os.path.dirname(os.path.abspath(__file__)))
KNOWN = os.path.join(ROOT, "known_findings.txt")


def src_hash(f):
    try:
        f = getattr(f, "__wrapped__", f)
        if isinstance(f, property):
            f = f.fget
        s = inspect.getsource(f)
        name = getattr(f, "__module__", "?") + "." + getattr(f, "__qualname__", getattr(f, "__name__", "?"))
        return dict(function=name, sha256=hashlib.sha256(s.encode()).hexdigest()[:16], lines=len(s.splitlines()))
    except Exception as e:
        return dict(function=str(f), sha256="unavailable: %s" % e)


def load_known():
    """known_findings.txt: lines 'finding: property=<id> key=<key> <text>' and 'fixed: property=<id> <commit> <text>'"""
    out = []
    if os.path.exists(KNOWN):
        for line in open(KNOWN):
            line = line.strip()
            if not line or line.startswith("#"):
                continue
            if line.startswith("finding:"):
                toks = line[len("finding:") :].split()
                d = dict(kind="finding", text=line)
                for t in toks:
                    if t.startswith("property="):
                        d["property"] = t.split("=", 1)[1]
                    elif t.startswith("key="):
                        d["key"] = t.split("=", 1)[1]
                out.append(d)
    return out


def _run_group_child(fn, tier, seed, outpath):
    t0 = time.time()
    res = dict(name=getattr(fn, "__name__", str(fn)), obligations=[], violations=[], errors=[], functions=[], bounds={}, stubs=[], assumptions=[], witnesses=0, stats={})
    try:
        sys.setrecursionlimit(20000)
        r = fn(tier, seed)
        fl = r.pop("functions", [])
        res.update(r)
        res["functions"] = [src_hash(f) if callable(f) or isinstance(f, property) else f for f in fl]
    except BaseException as e:  # HarnessError and friends derive from BaseException
        res["errors"].append("%s: %s\n%s" % (type(e).__name__, e, traceback.format_exc(limit=12)))
    res["wall_s"] = round(time.time() - t0, 3)
    with open(outpath, "w") as f:
        json.dump(res, f)


def run_groups(groups, tier, seed, nproc=None, group_timeout=900):
    """Run each group function in its own forked process, at most nproc at a time"""
    nproc = nproc or min(16, os.cpu_count() or 4)
    tmp = tempfile.mkdtemp(prefix="vsym_")
    ctx = mp.get_context("fork")
    pending = list(enumerate(groups))
    running = {}
    results = {}
    try:
        while pending or running:
            while pending and len(running) < nproc:
                i, g = pending.pop(0)
                out = os.path.join(tmp, "g%d.json" % i)
                p = ctx.Process(target=_run_group_child, args=(g, tier, seed, out))
                p.start()
                running[i] = (p, out, time.time(), g)
            time.sleep(0.05)
            for i in list(running):
                p, out, t0, g = running[i]
                if not p.is_alive():
                    p.join()
                    if os.path.exists(out):
                        results[i] = json.load(open(out))
                        if os.environ.get("VERIF_PROGRESS"):
                            sys.stderr.write("[group done] %s %.1fs errors=%d violations=%d\n" % (results[i].get("name"), results[i].get("wall_s", 0), len(results[i].get("errors", [])), len(results[i].get("violations", []))))
                    else:
                        results[i] = dict(name=getattr(g, "__name__", "?"), obligations=[], violations=[], errors=["group process died (exit code %s)" % p.exitcode], functions=[], bounds={}, stubs=[], assumptions=[], witnesses=0, stats={}, wall_s=time.time() - t0)
                    del running[i]
                elif time.time() - t0 > group_timeout:
                    p.kill()
                    p.join()
                    results[i] = dict(name=getattr(g, "__name__", "?"), obligations=[], violations=[], errors=["group exceeded its wall-clock cap of %ds (inconclusive)" % group_timeout], functions=[], bounds={}, stubs=[], assumptions=[], witnesses=0, stats={}, wall_s=time.time() - t0)
                    del running[i]
    finally:
        for i in list(running):
            running[i][0].kill()
        shutil.rmtree(tmp, ignore_errors=True)
    return [results[i] for i in sorted(results)]


def finish(prop, tier, seed, results, t0, technique, explanation, extra_assumptions=(), level="other"):
    """Aggregate group results, write evidence, print verdict lines, return exit code"""
    known = [k for k in load_known() if k.get("property") == prop]
    obligations = []
    violations = []
    errors = []
    functions = {}
    stubs = set()
    assumptions = list(extra_assumptions)
    witnesses = 0
    stats = dict(paths=0, queries=0, solver_time=0.0, merge_calls=0, merge_local_paths=0)
    groups_summary = []
    for r in results:
        for ob in r["obligations"]:
            ob["group"] = r["name"]
        obligations += r["obligations"]
        violations += [dict(v, group=r["name"]) for v in r["violations"]]
        errors += ["[%s] %s" % (r["name"], e) for e in r["errors"]]
        for f in r["functions"]:
            functions[f["function"]] = f
        stubs.update(r.get("stubs", []))
        for a in r.get("assumptions", []):
            if a not in assumptions:
                assumptions.append(a)
        witnesses += r.get("witnesses", 0)
        for k in stats:
            stats[k] += r.get("stats", {}).get(k, 0)
        groups_summary.append(dict(group=r["name"], bounds=r.get("bounds", {}), obligations=len(r["obligations"]), wall_s=r.get("wall_s"), stats=r.get("stats", {})))

    proves = [o for o in obligations if o.get("kind", "prove") == "prove"]
    reach = [o for o in obligations if o.get("kind") == "reach"]
    n_unsat = sum(1 for o in proves if o["status"] == "unsat")
    n_unknown = [o for o in proves if o["status"] not in ("unsat", "sat")]
    for o in n_unknown:
        errors.append("[%s] obligation %s inconclusive: %s %s" % (o.get("group"), o["name"], o["status"], o.get("reason", "")))
    for o in reach:
        if o["status"] != "sat":
            errors.append("[%s] vacuity guard %s is %s (harness assumptions unsatisfiable or unknown)" % (o.get("group"), o["name"], o["status"]))
    # sat obligations must be accounted for by a violation record (reproduced) or an error (non-reproducing)
    accounted = set()
    for v in violations:
        for n in v.get("obligations", []):
            accounted.add((v["group"], n))
    for o in proves:
        if o["status"] == "sat" and (o.get("group"), o["name"]) not in accounted:
            errors.append("[%s] obligation %s is sat but the group did not replay it" % (o.get("group"), o["name"]))

    distinct = len({(o.get("group"), o.get("text"), o.get("size")) for o in proves if o.get("size", 0) > 1})

    new_violations = []
    known_hits = []
    os.makedirs(os.path.join(ROOT, "replays", prop), exist_ok=True)
    for v in violations:
        hit = None
        for k in known:
            if k.get("key") and k["key"] == v.get("key"):
                hit = k
        if hit:
            known_hits.append((hit, v))
        else:
            new_violations.append(v)

    printed = set()
    for k, v in known_hits:
        if k["key"] not in printed:
            printed.add(k["key"])
            print("KNOWN-FINDING: property=%s key=%s %s" % (prop, k["key"], v.get("what", "")))
    replay_paths = []
    for v in new_violations:
        body = json.dumps(dict(property=prop, group=v["group"], key=v.get("key"), what=v.get("what"), model=v.get("model"), replay=v.get("replay")), indent=1, sort_keys=True)
        h = hashlib.sha256(body.encode()).hexdigest()[:12]
        path = os.path.join(ROOT, "replays", prop, "%s.json" % h)
        with open(path, "w") as f:
            f.write(body)
        replay_paths.append(path)
        print("VIOLATION property=%s replay=%s" % (prop, path))
        print("  what: %s" % v.get("what"))
        print("  key: %s" % v.get("key"))

    samples = []
    for o in proves[:: max(1, len(proves) // 6)][:6]:
        samples.append(dict(group=o.get("group"), obligation=o["name"], assertion=o.get("text"), status=o["status"], smt_nodes=o.get("size"), meta=o.get("meta", {})))
    for o in reach[:2]:
        samples.append(dict(group=o.get("group"), vacuity_witness=o["name"], status=o["status"], model=o.get("model")))

    wall = time.time() - t0
    ev = dict(
        property_id=prop,
        tier=tier,
        seed=int(seed),
        level=level,
        coverage=dict(
            explanation=explanation,
            technique=technique,
            evaluations=len(proves),
            distinct_nontrivial=distinct,
            rule="one evaluation = one solver obligation (negated assertion under the path condition of a symbolic execution of the real code); non-trivial = its negation still mentions a symbolic variable after simplification; distinct = different (group, assertion text, term size)",
            samples=samples,
            obligations=len(proves),
            discharged=n_unsat,
            sat=sum(1 for o in proves if o["status"] == "sat"),
            inconclusive=len(n_unknown),
            vacuity_witnesses=len(reach),
            traces_validated_against_impl=witnesses,
            checker_cmd="./check %s --tier %s" % (prop, tier),
            trusted_base=["z3 %s" % _z3v(), "vsym proxies/shims (differentially self-tested each run)", "CPython 3.12 bytecode semantics"] + sorted(stubs),
            functions_encoded=sorted(functions.values(), key=lambda d: d["function"]),
            groups=groups_summary,
            paths=stats["paths"],
            solver_queries=stats["queries"],
            solver_time_s=round(stats["solver_time"], 3),
            merge_calls=stats["merge_calls"],
            merge_local_paths=stats["merge_local_paths"],
            known_findings_hit=[k["key"] for k, _ in known_hits],
            errors=errors[:20],
        ),
        assumptions=assumptions,
        wall_s=round(wall, 3),
        violations=len(new_violations),
    )
    evdir = os.environ.get("VERIF_EVIDENCE_DIR") or os.path.join(ROOT, "evidence")  # scratch runs (mutant trials) write elsewhere
    os.makedirs(evdir, exist_ok=True)
    with open(os.path.join(evdir, "%s.json" % prop), "w") as f:
        json.dump(ev, f, indent=1)

    print("%s %s: %d obligations, %d unsat, %d sat, %d inconclusive; %d vacuity witnesses; %d groups; paths=%d queries=%d solver=%.1fs wall=%.1fs" % (prop, tier, len(proves), n_unsat, ev["coverage"]["sat"], len(n_unknown), len(reach), len(results), stats["paths"], stats["queries"], stats["solver_time"], wall))
    if new_violations:
        return 1
    if errors:
        for e in errors[:30]:
            print("HARNESS-ERROR:", e[:2000])
        return 2
    return 0


def _z3v():
    try:
        import z3

        return z3.get_version_string()
    except Exception:
        return "?"


def stats_of(st):
    return dict(paths=st["paths"], queries=st["queries"], solver_time=round(st["solver_time"], 3), merge_calls=st.get("merge_calls", 0), merge_local_paths=st.get("merge_local_paths", 0))
