#!/usr/bin/env python3
"""Assemble /verif/seeded/<id>/ from the sub-agents' deliverables, my confirmation runs and the check matrix"""
import json, os, shutil, sys, glob

# usage: assemble_seeded.py [root conf matrix base]...   (default: the three rounds under /tmp/mut, /tmp/mut2, /tmp/mut3)
ROUNDS = [("/tmp/mut", "/root/mutant_confirm.jsonl", "/root/mutant_matrix.tsv", "447ed3b"), ("/tmp/mut2", "/root/mutant_confirm2.jsonl", "/root/mutant_matrix2.tsv", "a63c2fe"), ("/tmp/mut3", "/root/mutant_confirm3.jsonl", "/root/mutant_matrix3.tsv", "8b62ba8"), ("/tmp/mut4", "/root/mutant_confirm4.jsonl", "/root/mutant_matrix4.tsv", "8b62ba8"), ("/tmp/mut5", "/root/mutant_confirm5.jsonl", "/root/mutant_matrix5.tsv", "8b62ba8"), ("/tmp/mut6", "/root/mutant_confirm6.jsonl", "/root/mutant_matrix6.tsv", "8b62ba8")]
if len(sys.argv) > 4:
    a = sys.argv[1:]
    ROUNDS = [tuple(a[i : i + 4]) for i in range(0, len(a) - 3, 4)]
OUT = "/verif/seeded"
conf = {}
matrix = {}
base_of = {}
dirs = []
for ROOT, CONF, MATRIX, BASE in ROUNDS:
    if os.path.exists(CONF):
        for l in open(CONF):
            l = l.strip()
            if l.startswith("{"):
                d = json.loads(l)
                conf[d["id"]] = d
    if os.path.exists(MATRIX):
        for l in open(MATRIX):
            t = l.rstrip("\n").split("\t")
            if len(t) >= 4:
                matrix.setdefault(t[0], []).append(dict(check=t[1], rc=t[2].replace("rc=", ""), violations=int(t[3]) if t[3].isdigit() else t[3], failing_claims=t[4] if len(t) > 4 else ""))
    for d in sorted(glob.glob(ROOT + "/C*/[a-k]")):
        dirs.append(d)
        base_of[d] = BASE
rows = []
for d in sorted(dirs, key=lambda x: (os.path.basename(os.path.dirname(x)), os.path.basename(x))):
    BASE = base_of[d]
    prop = os.path.basename(os.path.dirname(d))
    mid = "%s_%s" % (prop, os.path.basename(d))
    dst = os.path.join(OUT, mid)
    os.makedirs(dst, exist_ok=True)
    for f in ("patch.diff", "patch_rebased.diff", "demo.py"):
        if os.path.exists(os.path.join(d, f)):
            shutil.copy(os.path.join(d, f), os.path.join(dst, f))
    meta = {}
    if os.path.exists(os.path.join(d, "meta.json")):
        try:
            meta = json.load(open(os.path.join(d, "meta.json")))
        except Exception:
            meta = {}
    c = conf.get(mid, {})
    m = matrix.get(mid, [])
    caught = [x["check"] for x in m if x["rc"] == "1"]
    out = dict(
        id=mid,
        property=prop,
        summary=meta.get("summary"),
        needs=meta.get("needs"),
        origin="written by a fresh sub-agent given only the property text and a scratch worktree of commit %s%s" % (BASE, " (the pinned commit)" if BASE == "447ed3b" else " (the pinned commit plus the fix: commits; later rounds were also told which changes earlier rounds had made, to force different mechanisms)"),
        patch="patch.diff applies to commit %s" % BASE + ("; patch_rebased.diff is the same change re-applied on top of the fix: commits in /repo (the original hunk overlaps a repaired line)" if os.path.exists(os.path.join(d, "patch_rebased.diff")) else " and to /repo HEAD" if BASE == "447ed3b" else ""),
        confirmed_by_me=dict(
            how="scratch worktree of %s under /tmp:" % BASE + " demo.py on the clean tree, `git apply patch.diff`, demo.py again, then the 76 stable baseline tests (tools/baseline.sh, pytest-xdist); worktree removed afterwards",
            demo_exit_clean=c.get("demo_rc_clean"),
            demo_exit_with_change=c.get("demo_rc_mutant"),
            baseline_with_change=c.get("baseline"),
            valid=bool(c) and c.get("demo_rc_clean") == 0 and c.get("demo_rc_mutant") not in (0, None) and "76 passed" in (c.get("baseline") or ""),
        ),
        checks_run=dict(how=("scratch worktree of /repo HEAD with the change applied, checks run from /verif with PYTHONPATH=<worktree> (tools/try_mutant_wt.sh; /repo untouched); ./check <ID> --tier quick; worktree removed" if d.startswith("/tmp/mut6/") else "git -C /repo apply <patch>; ./check <ID> --tier quick; git -C /repo checkout -- ."), results=m),
        caught_by=caught,
    )
    json.dump(out, open(os.path.join(dst, "meta.json"), "w"), indent=1)
    rows.append(out)
# summary table for DESIGN.md
lines = ["| change | breaks | needs (abridged) | confirmed | caught by (quick tier, exit 1) |", "|---|---|---|---|---|"]
for r in rows:
    needs = (r["needs"] or "").replace("\n", " ").replace("|", "/")
    lines.append("| %s | %s | %s | %s | %s |" % (r["id"], r["property"], (needs[:150] + "…") if len(needs) > 150 else needs, "yes" if r["confirmed_by_me"]["valid"] else "NO (%s)" % json.dumps({k: r["confirmed_by_me"][k] for k in ("demo_exit_clean", "demo_exit_with_change", "baseline_with_change")}), ", ".join(r["caught_by"]) or "**not caught**"))
open(os.path.join(OUT, "SUMMARY.md"), "w").write("\n".join(lines) + "\n")
print("\n".join(lines))
