#!/bin/sh
# usage: tools/mutant_matrix.sh <mutants-root> <out.tsv>  -- every seeded change against its own property's check and the related ones
ROOT=${1:-/tmp/mut}; OUT=${2:-/root/mutant_matrix.tsv}
: > "$OUT"
related() {
  case $1 in
    C01) echo "C01 C02 C05";; C02) echo "C02 C01 C03";; C03) echo "C03 C06 C02";; C04) echo "C04 C01";; C05) echo "C05 C01";;
    C06) echo "C06";; C07) echo "C07";; C08) echo "C08";; C09) echo "C09 C11";; C10) echo "C10";; C11) echo "C11 C13";;
    C12) echo "C12";; C13) echo "C13 C12 C11";; C14) echo "C14";; C15) echo "C15 C14";; C17) echo "C17";; C19) echo "C19";; C20) echo "C20";;
  esac
}
for d in $ROOT/C*/[a-f]; do
  prop=$(basename $(dirname $d)); id=${prop}_$(basename $d)
  p=$d/patch.diff; [ -f $d/patch_rebased.diff ] && p=$d/patch_rebased.diff
  cd /repo; git diff --quiet || { echo "repo dirty" >> "$OUT"; exit 2; }
  git apply $p || { echo "$id	APPLYFAIL" >> "$OUT"; continue; }
  cd /verif
  for c in $(related $prop); do
    O=$(timeout 1800 ./check $c --tier quick --nproc 8 2>&1); rc=$?
    keys=$(echo "$O" | grep -E "^  key:" | sed -e 's/.*\]://' -e 's/^  key: //' | sort | uniq -c | sort -rn | head -3 | tr -s ' ' | tr '\n' ';')
    echo "$id	$c	rc=$rc	$(echo "$O" | grep -c '^VIOLATION')	$keys" >> "$OUT"
  done
  cd /repo && git checkout -- .
done
echo DONE >> "$OUT"
