#!/bin/sh
# Confirm every seeded change: demo passes on the pinned tree, fails with the change, baseline still passes with the change.
# usage: tools/confirm_mutants.sh <mutants-root> <out.jsonl>
ROOT=${1:-/tmp/mut}; OUT=${2:-/root/mutant_confirm.jsonl}
BASE=${BASE:-447ed3b}
: > "$OUT"
for d in $ROOT/C*/[a-k]; do
  id=$(basename $(dirname $d))_$(basename $d)
  WT=/tmp/wtv_$id
  git -C /repo worktree add -f --detach $WT $BASE -q 2>/dev/null
  ( cd /tmp && PYTHONPATH=$WT MPLBACKEND=Agg timeout 900 /venv/bin/python $d/demo.py >/dev/null 2>&1 ); rc_clean=$?
  if git -C $WT apply $d/patch.diff 2>/dev/null; then applied=1; else applied=0; fi
  ( cd /tmp && PYTHONPATH=$WT MPLBACKEND=Agg timeout 900 /venv/bin/python $d/demo.py >/dev/null 2>&1 ); rc_mut=$?
  base=$(/verif/tools/baseline.sh $WT ${BASE_WORKERS:-14} 2>&1 | grep -E "passed|failed" | tail -1)
  echo "{\"id\":\"$id\",\"applied\":$applied,\"demo_rc_clean\":$rc_clean,\"demo_rc_mutant\":$rc_mut,\"baseline\":\"$base\"}" >> "$OUT"
  git -C /repo worktree remove --force $WT
done
echo DONE >> "$OUT"
