#!/bin/sh
# usage: tools/try_mutant.sh <patch.diff> <PROP> [more PROPs...]   -- apply patch to /repo, run quick checks, undo. Prints rc per check.
P=$1; shift
cd /repo || exit 2
git diff --quiet || { echo "repo dirty"; exit 2; }
git apply "$P" || { echo "patch does not apply"; exit 2; }
cd /verif
for c in "$@"; do
  OUT=$(timeout ${MUT_TIMEOUT:-1500} ./check $c --tier ${MUT_TIER:-quick} 2>&1); rc=$?
  echo "== $c rc=$rc $(echo "$OUT" | grep -c '^VIOLATION') violations; $(echo "$OUT" | grep -E "^$c (quick|thorough)" | tail -1)"
  echo "$OUT" | grep -E "^  key:|HARNESS-ERROR" | sed -e "s/.*\]:/  /" | sort | uniq -c | sort -rn | head -${MUT_LINES:-4}
done
cd /repo && git checkout -- . && git status --short | grep -v "^??"
