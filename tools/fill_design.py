#!/usr/bin/env python3
"""Insert the seeded-change table (seeded/SUMMARY.md) into DESIGN.md §7b between the markers"""
import re

d = open("/verif/DESIGN.md").read()
t = open("/verif/seeded/SUMMARY.md").read()
start, end = "<!-- seeded-table-start -->", "<!-- seeded-table-end -->"
block = start + "\n" + t + end
if start in d:
    d = re.sub(re.escape(start) + r".*?" + re.escape(end), lambda m: block, d, flags=re.S)
else:
    d = d.replace("PLACEHOLDER_SEEDED", block)
open("/verif/DESIGN.md", "w").write(d)
print("ok")
