#!/usr/bin/env python3
"""Regenerate /verif/MANIFEST.json from the table below (kept valid against /root/.vp/MANIFEST.schema.json)."""
import json, os, sys

ROOT = os.path.dirname(os.path.dirname(os.path.abspath(__file__)))
TECH = "solver-based checking: symbolic execution of the real atomica functions on z3 proxies (vsym), SMT obligations (z3 4.8/5.1, cvc5 portfolio), counterexamples replayed on the unpatched code"

# id -> (design_ref, level text, level_note, technique)
CHECKS = {}
NOT_APPLICABLE = {}


def check(pid, design_ref, text, note, technique=TECH, category="other"):
    CHECKS[pid] = dict(design_ref=design_ref, text=text, note=note, technique=technique, category=category)


def na(pid, reason):
    NOT_APPLICABLE[pid] = reason


exec(open(os.path.join(ROOT, "tools", "manifest_table.py")).read())

props = [json.loads(l)["id"] for l in open(os.path.join(ROOT, "properties.jsonl"))]
m = {
    "version": 1,
    "setup_cmd": "./setup.sh",
    "hooks": {
        "guard": "ATOMICA_VERIF",
        "enable": "no source hooks are needed: every check imports /repo's current working tree and, for the duration of a harness, replaces module globals (np, math, sc, exp ...) of the imported atomica modules by vsym shims; ATOMICA_VERIF=1 is exported by ./check for completeness",
        "baseline_off_cmd": "cd /repo && /venv/bin/python -m pytest -ra -q -p no:cacheprovider --timeout=900 --continue-on-collection-errors",
        "source_commits": [],
        "add_only": True,
    },
    "engines": [
        {
            "name": "vsym",
            "path": "vsym/",
            "serves_properties": sorted(CHECKS),
            "kind_free_text": "purpose-built symbolic executor for numerical Python: z3 Real / Float64 proxies inside numpy object arrays, path exploration by re-execution, state merging at call boundaries, cuts with proven guarantees, staged solving (incremental z3, fresh z3, z3-4.8.12/cvc5 binaries), concrete replay of witnesses and counterexamples on the unpatched code",
        }
    ],
    "checks": [],
    "notes": "Exit codes: 0 all obligations unsat (or only listed known findings), 1 reproduced violation, 2 harness error / inconclusive. Known findings: known_findings.txt. Design: DESIGN.md.",
    "not_applicable": [],
}
for pid in props:
    if pid in CHECKS:
        c = CHECKS[pid]
        m["checks"].append(
            {
                "property_id": pid,
                "quick_cmd": "./check %s --tier quick" % pid,
                "thorough_cmd": "./check %s --tier thorough" % pid,
                "evidence_file": "/verif/evidence/%s.json" % pid,
                "replay_cmd_template": "./check %s --replay {path}" % pid,
                "engine": "vsym",
                "level_claimed": {"category": c["category"], "text": c["text"], "design_ref": c["design_ref"]},
                "level_note": c["note"],
                "technique": c["technique"],
            }
        )
    else:
        m["not_applicable"].append({"property_id": pid, "reason": NOT_APPLICABLE.get(pid, "check not yet built (work in progress)")})
json.dump(m, open(os.path.join(ROOT, "MANIFEST.json"), "w"), indent=1)
try:
    import jsonschema

    jsonschema.validate(m, json.load(open("/root/.vp/MANIFEST.schema.json")))
    print("MANIFEST.json valid:", len(m["checks"]), "checks,", len(m["not_applicable"]), "not applicable")
except ImportError:
    print("written (jsonschema not available for validation)")
