#!/bin/sh
# usage: tools/run_all.sh [quick|thorough]  -- run every claimed check, print one line per check
cd "$(dirname "$0")/.."
TIER=${1:-quick}
for c in $(python3 -c "import json;print(' '.join(x['property_id'] for x in json.load(open('MANIFEST.json'))['checks']))"); do
  S=$(date +%s)
  OUT=$(./check $c --tier $TIER 2>&1); rc=$?
  E=$(date +%s)
  echo "$c rc=$rc $((E-S))s $(echo "$OUT" | grep -E "^$c (quick|thorough)" | tail -1 | cut -c1-170)"
  [ $rc -ne 0 ] && echo "$OUT" | grep -E "VIOLATION|HARNESS-ERROR|KNOWN" | cut -c1-300 | head -5
done
