#!/bin/sh
# usage: tools/baseline.sh <repo-dir> [-n workers]   -- runs the 76 stable baseline tests of BASELINE.json in <repo-dir>
# (imports that directory's atomica via PYTHONPATH) and reports pass/fail counts.
DIR=${1:-/repo}; N=${2:-8}
cd "$DIR" || exit 2
IDS=$(python3 - <<'PY'
import json
b=json.load(open('/root/.vp/BASELINE.json'))
out=[]
for t in b['stable_pass']:
    mod,rest=t.split('::',1)
    out.append(mod.replace('.','/')+'.py::'+rest)
print(' '.join("'%s'"%x for x in out))
PY
)
OUT=$(mktemp /tmp/baseline.XXXXXX)
eval PYTHONPATH="$DIR" MPLBACKEND=Agg /venv/bin/python -m pytest -q -p no:cacheprovider --timeout=900 -n $N $IDS > "$OUT" 2>&1
tail -3 "$OUT"
grep -E "^(FAILED|ERROR) tests" "$OUT" | head -20
rm -f "$OUT"
