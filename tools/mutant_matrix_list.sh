#!/bin/sh
# usage: tools/mutant_matrix_list.sh <mutants-root> <out.tsv> <listfile>
# listfile lines: "<PROP>/<letter> CHECK [CHECK...]" -- apply the seeded change to /repo, run the listed quick checks, undo it straight afterwards
ROOT=$1; OUT=$2; LIST=$3
: > "$OUT"
while read m checks; do
  [ -z "$m" ] && continue
  d=$ROOT/$m
  prop=${m%/*}; id=${prop}_${m#*/}
  p=$d/patch.diff; [ -f $d/patch_rebased.diff ] && p=$d/patch_rebased.diff
  cd /repo; git diff --quiet || { echo "repo dirty" >> "$OUT"; exit 2; }
  git apply $p || { echo "$id	APPLYFAIL" >> "$OUT"; continue; }
  cd /verif
  for c in $checks; do
    O=$(VERIF_EVIDENCE_DIR=/tmp/ev_matrix timeout 2400 ./check $c --tier quick --nproc 14 2>&1); rc=$?
    keys=$(echo "$O" | grep -E "^  key:" | sed -e 's/.*\]://' -e 's/^  key: //' | sort | uniq -c | sort -rn | head -3 | tr -s ' ' | tr '\n' ';')
    echo "$id	$c	rc=$rc	$(echo "$O" | grep -c '^VIOLATION')	$keys" >> "$OUT"
  done
  cd /repo && git checkout -- . && rm -f test.xlsx
done < "$LIST"
echo DONE >> "$OUT"
