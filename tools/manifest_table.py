# Table of claimed checks; executed by tools/manifest.py
check(
    "C12",
    "DESIGN.md §5 C12",
    "Bounded symbolic proof: for every coverage vector in [0,1]^n, every baseline/outcome/explicit-interaction value (|v|<=1e6), n<=3 quick / n<=5 thorough, and each of the three coverage interactions, the real Covout code yields non-negative weights summing to <=1 with marginals equal to the coverages, the value is the weighted average (hence within [min,max]), equals baseline at zero coverage, baseline+c*delta for a single program, is monotone when all deltas share a sign, and combination outcomes are the explicit value or the farthest member.",
    "Floats are modelled as reals (tolerance 1e-9 relative separates rounding from violations); numpy is replaced by the vsym shim (differentially validated by concrete witness replay on every run); n>5 programs per parameter outside the bound; additive monotonicity n>=3 quick-tier excluded (thorough only).",
)
na("C16", "file round trips go through openpyxl/xlsxwriter/zip/pickle and pandas frames (C-level and I/O code with no symbolic reach); nothing in it is a bounded arithmetic kernel a solver could decide (DESIGN.md §5 C16)")
na("C18", "totality of the spreadsheet validators over malformed files is an enumeration of concrete mutated files through pandas; proxies are realised at the pandas boundary, so solver-based checking does not apply (DESIGN.md §5 C18)")
