#!/bin/sh
# usage: tools/try_mutant_wt.sh <worktree> <patch.diff> <PROP>...   -- like try_mutant.sh, but against a scratch worktree
# (the checks import atomica from PYTHONPATH=<worktree>), so /repo is left alone. Set MUT_ONLY to restrict groups.
W=$1; P=$2; shift; shift
cd "$W" || exit 2
git diff --quiet || { echo "worktree dirty"; exit 2; }
git apply "$P" || { echo "patch does not apply"; exit 2; }
cd /verif
for c in "$@"; do
  OUT=$(PYTHONPATH="$W" VERIF_EVIDENCE_DIR=/tmp/ev_scratch timeout ${MUT_TIMEOUT:-1500} ./check $c --tier ${MUT_TIER:-quick} --nproc ${MUT_NPROC:-16} ${MUT_ONLY:+--only "$MUT_ONLY"} 2>&1); rc=$?
  echo "== $c rc=$rc $(echo "$OUT" | grep -c '^VIOLATION') violations; $(echo "$OUT" | grep -E "^$c (quick|thorough)" | tail -1)"
  echo "$OUT" | grep -E "^  key:|HARNESS-ERROR" | sed -e "s/.*\]:/  /" | sort | uniq -c | sort -rn | head -${MUT_LINES:-4}
done
cd "$W" && git checkout -- . && git status --short | grep -v "^??"
